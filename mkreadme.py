#!/usr/bin/env python3
"""Regenerates mutants/README.md and seeded/README.md from MUTANTS.tsv/RESULTS.txt and seeded/*/meta.json."""
import json, glob, os, re
os.chdir(os.path.dirname(os.path.abspath(__file__)))
res = {}
if os.path.exists('mutants/RESULTS.txt'):
    for l in open('mutants/RESULTS.txt'):
        if ':' in l:
            n, r = l.split(':', 1); res[n.strip()] = r.strip()
out = ['# Hand-made mutants (sensitivity suite)\n',
       'Each `.diff` applies to the current /repo tree, compiles and passes the repository\'s own tests.',
       '`run.sh` applies it to a scratch copy, runs the quick check of every targeted property (`VERIF_REPO=<copy>`),',
       're-executes the replay against the mutant (`replay=1` = reproduced) and against the clean tree (`clean-tree-replay=3` = not reproduced there).',
       '`*.neutral.diff` are behaviour-preserving variants that must NOT raise an alarm.\n',
       '| mutant | targets | what it does | last result |', '|---|---|---|---|']
for l in open('mutants/MUTANTS.tsv'):
    n, p, d = l.rstrip('\n').split('\t')
    out.append(f'| {n} | {p} | {d} | {res.get(n, "(not run)")} |')
open('mutants/README.md', 'w').write('\n'.join(out) + '\n')
out = ['# Independently seeded changes\n',
       'Written by fresh sub-agents that were given only the text of one property and a scratch worktree of /repo',
       '(nothing from /verif). Each was confirmed before it was kept: the repository\'s suite passes with the change,',
       'the demonstration fails with it and passes without it (`ingest.sh`). `replay-<prop>.json` is the minimised plan the',
       'check produced against the change.\n',
       '| id | breaks | what the change does | what it needs to manifest | result of the quick checks |', '|---|---|---|---|---|']
for m in sorted(glob.glob('seeded/*/meta.json')):
    j = json.load(open(m))
    def clip(s, n=400):
        s = re.sub(r'\s+', ' ', str(s)).replace('|', '\\|')
        return s if len(s) <= n else s[:n] + '...'
    note = j.get('note', '')
    out.append(f"| {j.get('id')} | {j.get('breaks_property')} | {clip(j.get('summary',''))} | {clip(j.get('needs',''))} | {j.get('verif_result','')}{(' - ' + note) if note else ''} |")
open('seeded/README.md', 'w').write('\n'.join(out) + '\n')
print('ok')
