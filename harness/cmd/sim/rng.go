package main

// One integer decides everything: VERIF_SEED -> per-run seed -> xoshiro256**.
// Own implementation (no math/rand): identical across Go versions, no global state.

type RNG struct{ s [4]uint64 }

func splitmix(x *uint64) uint64 {
	*x += 0x9e3779b97f4a7c15
	z := *x
	z = (z ^ (z >> 30)) * 0xbf58476d1ce4e5b9
	z = (z ^ (z >> 27)) * 0x94d049bb133111eb
	return z ^ (z >> 31)
}

func fnv64(s string) uint64 {
	h := uint64(14695981039346656037)
	for i := 0; i < len(s); i++ {
		h ^= uint64(s[i])
		h *= 1099511628211
	}
	return h
}

// runSeed derives the seed of run i of property p from the master seed.
func runSeed(master uint64, prop string, i int) uint64 {
	x := master*0x9e3779b97f4a7c15 ^ fnv64(prop)
	splitmix(&x)
	x ^= uint64(i) * 0xd1342543de82ef95
	return splitmix(&x)
}

func NewRNG(seed uint64) *RNG {
	r := &RNG{}
	x := seed
	for i := range r.s {
		r.s[i] = splitmix(&x)
	}
	return r
}

func rotl(x uint64, k uint) uint64 { return (x << k) | (x >> (64 - k)) }

func (r *RNG) U64() uint64 {
	s := &r.s
	res := rotl(s[1]*5, 7) * 9
	t := s[1] << 17
	s[2] ^= s[0]
	s[3] ^= s[1]
	s[1] ^= s[2]
	s[0] ^= s[3]
	s[2] ^= t
	s[3] = rotl(s[3], 45)
	return res
}

// Intn returns a value in [0,n). n must be > 0.
func (r *RNG) Intn(n int) int {
	if n <= 1 {
		return 0
	}
	return int(r.U64() % uint64(n))
}

// Range returns a value in [lo,hi].
func (r *RNG) Range(lo, hi int) int { return lo + r.Intn(hi-lo+1) }

// Chance is true with probability num/den.
func (r *RNG) Chance(num, den int) bool { return r.Intn(den) < num }

func (r *RNG) Pick(l []string) string { return l[r.Intn(len(l))] }

// Weighted returns an index drawn with the given weights.
func (r *RNG) Weighted(w []int) int {
	t := 0
	for _, x := range w {
		t += x
	}
	if t <= 0 {
		return 0
	}
	k := r.Intn(t)
	for i, x := range w {
		if k < x {
			return i
		}
		k -= x
	}
	return len(w) - 1
}
