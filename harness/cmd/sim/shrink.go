package main

// Plan minimisation. A candidate counts only if it still fails with the same clause and still
// matches no known finding (runWorld already tolerates listed findings, so shrinking can never
// slip from a new bug into a listed one).

type failPred func(p *Plan) bool

func cloneOps(ops []Op) []Op { return append([]Op(nil), ops...) }

// ddminOps removes chunks of operations while the predicate holds.
func ddminOps(p Plan, get func(*Plan) []Op, set func(*Plan, []Op), pred failPred, budget *int) Plan {
	ops := get(&p)
	n := 2
	for len(ops) >= 1 && *budget > 0 {
		chunk := (len(ops) + n - 1) / n
		reduced := false
		for start := 0; start < len(ops) && *budget > 0; start += chunk {
			end := start + chunk
			if end > len(ops) {
				end = len(ops)
			}
			cand := append(cloneOps(ops[:start]), ops[end:]...)
			c := p
			set(&c, cand)
			*budget--
			if pred(&c) {
				ops = cand
				p = c
				if n > 2 {
					n--
				}
				reduced = true
				break
			}
		}
		if !reduced {
			if chunk <= 1 {
				break
			}
			n *= 2
			if n > len(ops) {
				n = len(ops)
			}
		}
	}
	set(&p, ops)
	return p
}

// shrinkString tries simpler variants of s under pred.
func shrinkString(s string, try func(string) bool, budget *int) string {
	if s == "" {
		return s
	}
	if *budget > 0 {
		*budget--
		if try("") {
			return ""
		}
	}
	// halves
	for len(s) > 1 && *budget > 0 {
		h := len(s) / 2
		*budget--
		if try(s[:h]) {
			s = s[:h]
			continue
		}
		*budget--
		if try(s[h:]) {
			s = s[h:]
			continue
		}
		break
	}
	// single byte deletions (bounded)
	for i := 0; i < len(s) && len(s) <= 64 && *budget > 0; {
		c := s[:i] + s[i+1:]
		*budget--
		if try(c) {
			s = c
		} else {
			i++
		}
	}
	// replace bytes by 'a'
	for i := 0; i < len(s) && len(s) <= 64 && *budget > 0; i++ {
		if s[i] == 'a' {
			continue
		}
		c := s[:i] + "a" + s[i+1:]
		*budget--
		if try(c) {
			s = c
		}
	}
	return s
}

func shrinkOpsStrings(p Plan, get func(*Plan) []Op, set func(*Plan, []Op), pred failPred, budget *int) Plan {
	ops := cloneOps(get(&p))
	for i := range ops {
		for _, which := range []int{0, 1} {
			cur := string(ops[i].A)
			if which == 1 {
				cur = string(ops[i].B)
			}
			if cur == "" {
				continue
			}
			res := shrinkString(cur, func(c string) bool {
				cand := cloneOps(ops)
				if which == 0 {
					cand[i].A = QS(c)
				} else {
					cand[i].B = QS(c)
				}
				cp := p
				set(&cp, cand)
				return pred(&cp)
			}, budget)
			if which == 0 {
				ops[i].A = QS(res)
			} else {
				ops[i].B = QS(res)
			}
		}
		// simpler operation of the same family: a resolution whose result does not depend on its base
		// becomes a plain parse (which lets ddmin drop the chain that led to the base)
		if ops[i].K == "resolve" && *budget > 0 {
			cand := cloneOps(ops)
			cand[i] = Op{K: "parse", P: ops[i].P, D: ops[i].D, A: ops[i].A}
			cp := p
			set(&cp, cand)
			*budget--
			if pred(&cp) {
				ops = cand
			}
		}
		// simpler variants: getter mask -> all, iterate mode -> 0
		if ops[i].K == "obs" && ops[i].W != 0 && *budget > 0 {
			cand := cloneOps(ops)
			cand[i].W = 0
			cp := p
			set(&cp, cand)
			*budget--
			if pred(&cp) {
				ops = cand
			}
		}
	}
	set(&p, ops)
	return p
}

func shrinkConfig(p Plan, pred failPred, budget *int) Plan {
	if p.Cfg.Profile != "" && *budget > 0 {
		c := p
		c.Cfg = Config{} // does it need the profile at all?
		*budget--
		if pred(&c) {
			p = c
		}
	}
	for i := 0; i < len(p.Cfg.Opts) && *budget > 0; {
		c := p
		c.Cfg.Opts = append(append([]OptSpec(nil), p.Cfg.Opts[:i]...), p.Cfg.Opts[i+1:]...)
		*budget--
		if pred(&c) {
			p = c
		} else {
			i++
		}
	}
	return p
}

// shrinkWorld minimises a worldsim plan.
func shrinkWorld(p Plan, pred failPred) Plan {
	budget := 4000
	get := func(p *Plan) []Op { return p.Ops }
	set := func(p *Plan, o []Op) { p.Ops = o }
	for round := 0; round < 3 && budget > 0; round++ {
		before := len(p.Ops)
		p = ddminOps(p, get, set, pred, &budget)
		p = shrinkConfig(p, pred, &budget)
		p = shrinkOpsStrings(p, get, set, pred, &budget)
		if len(p.Ops) == before && round > 0 {
			break
		}
	}
	// drop fault labels that no longer mean anything? keep: they are descriptive only
	return p
}
