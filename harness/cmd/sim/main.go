// sim is the deterministic simulator of /verif: worldsim (op-granular multi-party histories) and
// schedsim (seeded goroutine scheduler). It is always built against a freshly instrumented scratch
// copy of /repo (see /verif/check).
package main

import (
	"encoding/json"
	"flag"
	"fmt"
	"os"
	"strconv"

	rt "github.com/nlnwa/whatwg-url/verifrt"

	"verif/harness"
	"verif/harness/model"
)

var (
	fMode    = flag.String("mode", "drive", "drive | worker | replay | plan | selftest")
	fProp    = flag.String("prop", "", "property id")
	fTier    = flag.String("tier", "", "quick | thorough")
	fSeed    = flag.Uint64("seed", 0, "master seed (default VERIF_SEED or 1)")
	fRuns    = flag.Int("runs", 0, "override number of runs")
	fWorkers = flag.Int("workers", 16, "worker processes")
	fStride  = flag.Int("stride", 1, "worker: run indices offset, offset+stride, ...")
	fOffset  = flag.Int("offset", 0, "worker: first run index")
	fOut     = flag.String("out", "", "worker: result file")
	fTmp     = flag.String("tmp", "", "scratch directory")
	fVerif   = flag.String("verif", "/verif", "verif directory")
	fFile    = flag.String("file", "", "replay: replay file; plan: plan file")
	fRace    = flag.String("racebin", "", "drive: path of the -race build of this program (C14)")
	fRun     = flag.Int("run", -1, "plan: print the plan of this run index")
	fAtomic  = flag.Bool("atomic", false, "schedsim worker: operation-atomic quanta only")
	fRaceN   = flag.Int("raceruns", 0, "override number of race-build runs (C14)")
	fPreFrom = flag.Int("prelude-from", -1, "schedone: first re-execute runs [prelude-from, prelude-to) of -seed in this process")
	fPreTo   = flag.Int("prelude-to", -1, "schedone: see -prelude-from")
	fAtomic1 = flag.Int("atomicrun", -1, "schedsim worker: run this one index with operation-atomic quanta")
)

func infra(f string, a ...interface{}) {
	fmt.Fprintf(os.Stderr, "sim: INFRASTRUCTURE: "+f+"\n", a...)
	os.Exit(2)
}

func masterSeed() uint64 {
	if *fSeed != 0 {
		return *fSeed
	}
	if s := os.Getenv("VERIF_SEED"); s != "" {
		if v, err := strconv.ParseUint(s, 10, 64); err == nil {
			return v
		}
		// any other text: hash it
		return fnv64(s)
	}
	return 1
}

func tier() string {
	t := *fTier
	if t == "" {
		t = os.Getenv("VERIF_TIER")
	}
	if t != "thorough" {
		t = "quick"
	}
	return t
}

func modelSelfTest() {
	cov, out, bad := model.SelfTest(harness.URLTestData, harness.SettersTests)
	if len(bad) > 0 || cov < 900 {
		for _, b := range bad {
			fmt.Fprintln(os.Stderr, "model self-test:", b)
		}
		infra("reference model disagrees with the WPT vectors (covered %d, outside %d, bad %d)", cov, out, len(bad))
	}
}

func initHits() {
	rt.Hits = make([]uint32, rt.NSites+1)
}

func main() {
	flag.Parse()
	switch *fMode {
	case "selftest":
		modelSelfTest()
		fmt.Println("model self-test ok")
	case "worker":
		initHits()
		if *fProp == "C14" {
			schedWorker()
		} else {
			worldWorker()
		}
	case "refserver":
		initHits()
		refServer()
	case "schedone":
		initHits()
		schedOne()
	case "drive":
		os.Exit(drive())
	case "replay":
		os.Exit(replay())
	case "plan":
		var pl Plan
		if *fProp == "C14" {
			pl = genSchedPlan(masterSeed(), *fRun)
		} else {
			pl = genWorldPlan(*fProp, masterSeed(), *fRun)
		}
		b, _ := json.MarshalIndent(pl, "", " ")
		fmt.Println(string(b))
	default:
		infra("unknown mode %q", *fMode)
	}
}
