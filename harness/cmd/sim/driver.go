package main

import (
	"encoding/binary"
	"encoding/json"
	"fmt"
	"math"
	"math/bits"
	"os"
	"os/exec"
	"path/filepath"
	"sort"
	"strings"
	"time"

	rt "github.com/nlnwa/whatwg-url/verifrt"
)

// ---------------------------------------------------------------- HyperLogLog (state counting)

const hllP = 14

type HLL struct{ R []uint8 }

func newHLL() *HLL { return &HLL{R: make([]uint8, 1<<hllP)} }
func (h *HLL) Add(x uint64) {
	// x is already a hash; remix to be safe
	y := x
	x = splitmix(&y)
	idx := x >> (64 - hllP)
	w := x<<hllP | 1<<(hllP-1)
	rho := uint8(bits.LeadingZeros64(w) + 1)
	if rho > h.R[idx] {
		h.R[idx] = rho
	}
}
func (h *HLL) Merge(o *HLL) {
	for i := range h.R {
		if o.R[i] > h.R[i] {
			h.R[i] = o.R[i]
		}
	}
}
func (h *HLL) Count() int64 {
	m := float64(len(h.R))
	sum, zeros := 0.0, 0
	for _, r := range h.R {
		sum += math.Pow(2, -float64(r))
		if r == 0 {
			zeros++
		}
	}
	e := 0.7213 / (1 + 1.079/m) * m * m / sum
	if e <= 2.5*m && zeros > 0 {
		e = m * math.Log(m/float64(zeros))
	}
	return int64(e + 0.5)
}

// ---------------------------------------------------------------- worker

type FoundViolation struct {
	From int       `json:"from"` // first run index the reporting worker process executed
	Run  int       `json:"run"`
	Plan Plan      `json:"plan"`
	V    Violation `json:"v"`
}

type WorkerOut struct {
	Prop       string            `json:"prop"`
	Runs       int               `json:"runs"`
	Events     int64             `json:"events"`
	Skipped    int64             `json:"skipped"`
	Steps      int64             `json:"steps"`
	Hashes     []uint64          `json:"-"` // event-log hashes of non-trivial runs (distinct within the worker); binary side file <out>.hashes
	Faults     map[string]int    `json:"faults"`
	Known      map[string]int    `json:"known"`
	Aborted    map[string]int    `json:"aborted"`
	Truncated  int               `json:"truncated"`
	Exempt     int               `json:"exempt"`
	Hits       []uint32          `json:"hits"`
	States     []uint8           `json:"states"` // HLL registers over per-run final-state hashes / interleavings
	Viol       *FoundViolation   `json:"viol,omitempty"`
	Samples    []json.RawMessage `json:"samples,omitempty"`
	Redone     int               `json:"redone"` // determinism re-executions that matched
	WallS      float64           `json:"wall_s"`
	ListViaIt  bool              `json:"list_via_iterate"`
	Extra      map[string]int64  `json:"extra,omitempty"`
	Mismatch   []int             `json:"mismatch,omitempty"` // runs whose in-process re-execution hashed differently
	Digest     uint64            `json:"digest,string"`      // fold of every run's event-log hash, in run order
	Blocked    int               `json:"blocked,omitempty"`
	BlockedRun int               `json:"blocked_run,omitempty"`
}

func writeOut(o *WorkerOut) {
	hb := make([]byte, 8*len(o.Hashes))
	for i, h := range o.Hashes {
		binary.LittleEndian.PutUint64(hb[8*i:], h)
	}
	if err := os.WriteFile(*fOut+".hashes", hb, 0o644); err != nil {
		infra("write %s.hashes: %v", *fOut, err)
	}
	b, err := json.Marshal(o)
	if err != nil {
		infra("marshal: %v", err)
	}
	if err := os.WriteFile(*fOut, b, 0o644); err != nil {
		infra("write %s: %v", *fOut, err)
	}
}

func dedupe(h []uint64) []uint64 {
	sort.Slice(h, func(i, j int) bool { return h[i] < h[j] })
	o := h[:0]
	for i, x := range h {
		if i == 0 || x != h[i-1] {
			o = append(o, x)
		}
	}
	return o
}

func readHashes(path string) []uint64 {
	b, err := os.ReadFile(path)
	if err != nil {
		infra("%v", err)
	}
	h := make([]uint64, len(b)/8)
	for i := range h {
		h[i] = binary.LittleEndian.Uint64(b[8*i:])
	}
	return h
}

func planTrace(pl *Plan) []string {
	var t []string
	t = append(t, "config "+pl.Cfg.String())
	for i, op := range pl.Ops {
		s := fmt.Sprintf("%d: %s", i, op.String())
		if op.F != "" {
			s += "   {" + op.F + "}"
		}
		t = append(t, s)
	}
	return t
}

func worldWorker() {
	prop := *fProp
	mk := checkerFor(prop)
	if mk == nil {
		infra("no worldsim checker for %q", prop)
	}
	kf, err := loadKnown(filepath.Join(*fVerif, "known_findings.json"))
	if err != nil {
		infra("%v", err)
	}
	seed := masterSeed()
	out := &WorkerOut{Prop: prop, Faults: map[string]int{}, Known: map[string]int{}, Aborted: map[string]int{}}
	var hashes []uint64
	states := newHLL()
	t0 := time.Now()
	for i := *fOffset; i < *fRuns; i += *fStride {
		pl := genWorldPlan(prop, seed, i)
		res := runWorld(&pl, mk, kf, false)
		out.Runs++
		out.Events += int64(res.Events)
		out.Skipped += int64(res.Skipped)
		out.Steps += res.Steps
		for k, v := range res.Faults {
			out.Faults[k] += v
		}
		for k, v := range res.Known {
			out.Known[k] += v
		}
		if res.Aborted != "" {
			a := res.Aborted
			if len(a) > 80 {
				a = a[:80]
			}
			out.Aborted[a]++
		}
		if res.Truncated {
			out.Truncated++
		}
		out.Exempt += res.Exempt
		states.Add(res.Hash)
		out.Digest = out.Digest*1099511628211 ^ res.Hash
		if res.NonTriv {
			hashes = append(hashes, res.Hash)
			if len(out.Samples) < 3 && len(pl.Ops) >= 3 && len(pl.Ops) <= 8 {
				s, _ := json.Marshal(map[string]interface{}{"run": i, "trace": planTrace(&pl)})
				out.Samples = append(out.Samples, s)
			}
		}
		if res.Viol != nil {
			out.Viol = &FoundViolation{Run: i, Plan: pl, V: *res.Viol}
			break
		}
		// determinism sample: re-execute every 50th plan, the event-log hash must be identical
		if (i/(*fStride))%50 == 0 {
			pl2 := genWorldPlan(prop, seed, i)
			res2 := runWorld(&pl2, mk, kf, false)
			if res2.Hash != res.Hash {
				// Either the harness is nondeterministic, or the library carries state from run to run
				// inside this process (a cache). The driver decides by re-running in fresh processes.
				out.Mismatch = append(out.Mismatch, i)
			} else {
				out.Redone++
			}
		}
	}
	out.Hashes = dedupe(hashes)
	out.Hits = rt.Hits
	out.States = states.R
	out.WallS = time.Since(t0).Seconds()
	out.ListViaIt = listViaIterate
	writeOut(out)
}

// ---------------------------------------------------------------- drive

var tierRuns = map[string]map[string]int{
	"quick":    {"C02": 1_000_000, "C03": 1_500_000, "C04": 1_500_000, "C05": 2_000_000, "C11": 800_000, "C12": 1_500_000, "C13": 1_200_000, "C19": 1_500_000},
	"thorough": {"C02": 40_000_000, "C03": 40_000_000, "C04": 60_000_000, "C05": 60_000_000, "C11": 20_000_000, "C12": 40_000_000, "C13": 40_000_000, "C19": 60_000_000},
}

var propAnchors = map[string][]string{
	"C02": {"url/inputstring.go", "url/parser.go", "url/hostparser.go", "url/errorhandler.go", "canonicalizer/canonicalizer.go"},
	"C03": {"url/url.go", "url/path.go", "url/hostparser.go"},
	"C04": {"url/url.go", "url/parser.go", "url/hostparser.go"},
	"C05": {"url/url.go", "url/parser.go"},
	"C11": {"url/searchparams.go"},
	"C12": {"url/searchparams.go", "url/url.go"},
	"C13": {"url/url.go", "url/path.go", "url/searchparams.go", "url/parser.go"},
	"C14": {"url/url.go", "url/parser.go", "url/codesets.go", "url/searchparams.go", "canonicalizer/canonicalizer.go"},
	"C19": {"url/url.go", "url/hostparser.go", "url/parser.go"},
}

func runChildren(bin string, prop string, n, workers int, tmp string, tag string, extra []string, env []string, capSec int) []*WorkerOut {
	type child struct {
		cmd *exec.Cmd
		out string
		log *os.File
	}
	var cs []child
	for k := 0; k < workers; k++ {
		out := filepath.Join(tmp, fmt.Sprintf("w-%s-%s-%d.json", prop, tag, k))
		args := []string{"-mode", "worker", "-prop", prop, "-seed", fmt.Sprint(masterSeed()), "-runs", fmt.Sprint(n), "-stride", fmt.Sprint(workers), "-offset", fmt.Sprint(k), "-out", out, "-verif", *fVerif, "-tmp", tmp}
		args = append(args, extra...)
		cmd := exec.Command(bin, args...)
		lf, _ := os.Create(out + ".log")
		cmd.Stdout, cmd.Stderr = lf, lf
		cmd.Env = append(os.Environ(), env...)
		if err := cmd.Start(); err != nil {
			infra("start worker: %v", err)
		}
		cs = append(cs, child{cmd, out, lf})
	}
	deadline := time.After(time.Duration(capSec) * time.Second)
	done := make(chan int, len(cs))
	errs := make([]error, len(cs))
	for i := range cs {
		i := i
		go func() { errs[i] = cs[i].cmd.Wait(); done <- i }()
	}
	for range cs {
		select {
		case <-done:
		case <-deadline:
			for _, c := range cs {
				_ = c.cmd.Process.Kill()
			}
			infra("watchdog: workers for %s (%s) exceeded %d s", prop, tag, capSec)
		}
	}
	var outs []*WorkerOut
	for i, c := range cs {
		c.log.Close()
		if errs[i] != nil {
			lg, _ := os.ReadFile(c.out + ".log")
			infra("worker %d for %s (%s) failed: %v\n%s", i, prop, tag, errs[i], tailStr(string(lg), 3000))
		}
		data, err := os.ReadFile(c.out)
		if err != nil {
			infra("worker %d wrote no result: %v", i, err)
		}
		var o WorkerOut
		if err := json.Unmarshal(data, &o); err != nil {
			infra("worker %d result: %v", i, err)
		}
		o.Hashes = readHashes(c.out + ".hashes")
		outs = append(outs, &o)
		os.Remove(c.out)
		os.Remove(c.out + ".hashes")
		os.Remove(c.out + ".log")
	}
	return outs
}

// verifyFresh: a run whose in-process re-execution differed is executed alone in two fresh
// processes. Equal digests mean the library carries state between runs of one process (reported in
// the evidence, not an error); different digests mean the simulator itself is nondeterministic.
var unrepeatable int // C14 runs whose digest differs between fresh processes on a library with sync primitives of its own

func verifyFresh(bin, prop string, runs []int, tmp string) int {
	sort.Ints(runs)
	if len(runs) > 3 {
		runs = runs[:3]
	}
	for _, r := range runs {
		var d [2]uint64
		blockedInside := false
		for k := 0; k < 2; k++ {
			out := filepath.Join(tmp, fmt.Sprintf("vf-%s-%d-%d.json", prop, r, k))
			cmd := exec.Command(bin, "-mode", "worker", "-prop", prop, "-seed", fmt.Sprint(masterSeed()), "-runs", fmt.Sprint(r+1), "-stride", "1", "-offset", fmt.Sprint(r), "-out", out, "-verif", *fVerif, "-tmp", tmp)
			cmd.Env = append(os.Environ(), "GORACE=halt_on_error=1 exitcode=66 log_path="+out+".racelog")
			if b, err := cmd.CombinedOutput(); err != nil {
				infra("verifyFresh: %v\n%s", err, tailStr(string(b), 1500))
			}
			var o WorkerOut
			data, _ := os.ReadFile(out)
			if json.Unmarshal(data, &o) != nil {
				infra("verifyFresh: unreadable result")
			}
			d[k] = o.Digest
			if o.Faults["task blocked inside the library (detached)"] > 0 {
				blockedInside = true // released in the runtime's order, not the plan's (see schedLoop)
			}
			os.Remove(out)
			os.Remove(out + ".hashes")
		}
		if d[0] != d[1] && !blockedInside && prop == "C14" && len(rt.SyncSites) > 0 {
			// The library under test uses synchronisation primitives of its own. Some of them behave as
			// the runtime pleases (whether sync.Pool hands back a used object or calls New depends on
			// the garbage collector and on which P the goroutine sits), which changes how many
			// statements a call executes and with that where a quantum ends. That is the library's
			// nondeterminism, not the simulator's; it is reported, not treated as a defect of the run.
			unrepeatable++
			continue
		}
		if d[0] != d[1] && !blockedInside {
			infra("nondeterminism: run %d of %s gives digests %x and %x in two fresh processes", r, prop, d[0], d[1])
		}
	}
	return len(runs)
}

func tailStr(s string, n int) string {
	if len(s) > n {
		return s[len(s)-n:]
	}
	return s
}

type Merged struct {
	Runs, Truncated, Exempt, Redone int
	Events, Skipped, Steps          int64
	Distinct                        int
	Faults, Known, Aborted          map[string]int
	Hits                            []uint64
	States                          *HLL
	Viol                            *FoundViolation
	Samples                         []json.RawMessage
	MaxWall                         float64
	ListViaIt                       bool
	Extra                           map[string]int64
	Mismatch                        []int
}

func merge(outs []*WorkerOut) *Merged {
	m := &Merged{Faults: map[string]int{}, Known: map[string]int{}, Aborted: map[string]int{}, States: newHLL(), Extra: map[string]int64{}}
	var all []uint64
	for _, o := range outs {
		m.Runs += o.Runs
		m.Events += o.Events
		m.Skipped += o.Skipped
		m.Steps += o.Steps
		m.Truncated += o.Truncated
		m.Exempt += o.Exempt
		m.Redone += o.Redone
		for k, v := range o.Faults {
			m.Faults[k] += v
		}
		for k, v := range o.Known {
			m.Known[k] += v
		}
		for k, v := range o.Aborted {
			m.Aborted[k] += v
		}
		for k, v := range o.Extra {
			m.Extra[k] += v
		}
		all = append(all, o.Hashes...)
		if m.Hits == nil {
			m.Hits = make([]uint64, len(o.Hits))
		}
		for i, h := range o.Hits {
			if i < len(m.Hits) {
				m.Hits[i] += uint64(h)
			}
		}
		if len(o.States) == 1<<hllP {
			m.States.Merge(&HLL{R: o.States})
		}
		if o.Viol != nil && (m.Viol == nil || o.Viol.Run < m.Viol.Run) {
			m.Viol = o.Viol
		}
		if len(m.Samples) < 4 {
			m.Samples = append(m.Samples, o.Samples...)
		}
		if o.WallS > m.MaxWall {
			m.MaxWall = o.WallS
		}
		m.ListViaIt = m.ListViaIt || o.ListViaIt
		m.Mismatch = append(m.Mismatch, o.Mismatch...)
	}
	m.Distinct = len(dedupe(all))
	if len(m.Samples) > 4 {
		m.Samples = m.Samples[:4]
	}
	return m
}

// siteCoverage reports yield sites hit / total and the never-hit sites in the property's anchors.
func siteCoverage(prop string, hits []uint64) (hit, total int, missed []string) {
	total = rt.NSites
	for s := 1; s <= rt.NSites && s < len(hits); s++ {
		if hits[s] > 0 {
			hit++
			continue
		}
		name := rt.SiteNames[s]
		for _, a := range propAnchors[prop] {
			if strings.HasPrefix(name, a+":") {
				missed = append(missed, name)
				break
			}
		}
	}
	return
}

type Evidence struct {
	PropertyID  string                 `json:"property_id"`
	Tier        string                 `json:"tier"`
	Seed        uint64                 `json:"seed"`
	Level       string                 `json:"level"`
	Coverage    map[string]interface{} `json:"coverage"`
	Assumptions []string               `json:"assumptions"`
	WallS       float64                `json:"wall_s"`
	Violations  int                    `json:"violations"`
}

func writeEvidence(ev *Evidence) {
	dir := filepath.Join(*fVerif, "evidence")
	if d := os.Getenv("VERIF_EVIDENCE_DIR"); d != "" {
		dir = d // sensitivity runs against modified trees must not overwrite the real evidence
	}
	_ = os.MkdirAll(dir, 0o755)
	b, err := json.MarshalIndent(ev, "", " ")
	if err != nil {
		infra("evidence: %v", err)
	}
	if err := os.WriteFile(filepath.Join(dir, ev.PropertyID+".json"), append(b, '\n'), 0o644); err != nil {
		infra("evidence: %v", err)
	}
}

var worldRules = map[string]string{
	"C02": "seeded histories of ALL public operations (parse/ParseRef, three resolve ways, nine setters, Clone, SearchParams materialisation/mutation/reads, SetSearchParams, NewUrl, PercentEncodeString, Canonicalize) under swarm-drawn configurations (every subset of the 19+6 options reachable, 4 predefined profiles) with hostile bytes and long runs; oracle after every event: no panic (recover), statement budget 10^6+1000L+5L^2 on the injected yield counter (deterministic hang detector), URL-or-error contract, every getter of every live object works",
	"C03": "seeded histories: parse(input[,base string]) then nine-setter sequences (+ observer reads), in a third of the plans also resolutions against live URL objects in whatever state their history left them, and clones; after every event every live URL is serialized and re-parsed with the default parser and must give identical href + nine getters; exempt are only states that the reference model, fed the same calls in lockstep (creating calls included, resolved against the model's state of the base), reaches as well and does not round-trip either (mechanically, no hand list)",
	"C04": "seeded histories: parse then setters and resolutions of further references against any live URL; in a sixth of the plans also the tenth setter SetSearchParams with lists of the same URL, of other URLs and of URLs owned by a differently configured second parser (profiles, random option sets), with list mutations giving those lists content; after every event ten structural invariants of the URL record are evaluated on public getters of every live URL of the default parser",
	"C05": "seeded histories: parse then nine-setter sequences; the executable reference model of the standard's API setters receives the same calls (never re-synchronised); href + nine getters must agree after every event",
	"C11": "seeded histories of parameter-list operations (append/delete/set/sort/sortabs/iterate-with-edit, re-initialisation through SetSearch, aliased handles) against an ordered-list model; after every event: list equality, Get/GetAll/Has for all names in play, urlencoded parse of the query per the standard, serialize-then-parse identity",
	"C12": "seeded interleavings of two handle kinds on one state: parameter mutations (on early, late and stale handles), SetSearch, the other eight setters, observer reads; in a quarter of the plans the list is replaced through SetSearchParams by one of the URL's own handles or a SearchParams.Clone snapshot of one (afterwards only what SearchParams() returns is taken to be the URL's list); after every event the clause selected by the last writer of the query (list->url or url->list) is evaluated for every handle ever returned",
	"C13": "seeded multi-party histories: derive (resolve / Clone, chains and siblings), then setters and parameter mutations on either side; after every event every object other than the targeted one must be observationally unchanged (getters + parameter lists), and every object on either side of a derivation must behave like a pristine twin parsed from its serialization",
	"C19": "seeded histories: parse, nine setters (biased to host/hostname/port/protocol), resolutions, clones, observer reads; after every event the eight derived accessors of every live URL are compared with what the primary getters imply",
}

func drive() int {
	prop := *fProp
	t0 := time.Now()
	if *fTmp == "" {
		infra("-tmp required")
	}
	kf, err := loadKnown(filepath.Join(*fVerif, "known_findings.json"))
	if err != nil {
		infra("%v", err)
	}
	if prop == "C03" || prop == "C05" || prop == "C11" {
		modelSelfTest()
	}
	if prop == "C14" {
		return driveSched(kf, t0)
	}
	mk := checkerFor(prop)
	if mk == nil {
		infra("unknown property %q", prop)
	}
	n := tierRuns[tier()][prop]
	if *fRuns > 0 {
		n = *fRuns
	}
	fmt.Printf("sim: property=%s tier=%s seed=%d runs=%d workers=%d sites=%d\n", prop, tier(), masterSeed(), n, *fWorkers, rt.NSites)

	// directed replays of listed known findings: each must be exercised on every run
	knownSeen := map[string]bool{}
	for _, e := range kf.Entries {
		if e.Property != prop || e.Status != "known" || e.Example == "" {
			continue
		}
		var pl Plan
		if err := json.Unmarshal([]byte(e.Example), &pl); err != nil {
			infra("known finding %s: bad example plan: %v", e.ID, err)
		}
		res := runWorld(&pl, mk, kf, false)
		if res.Viol != nil {
			// the listed example now fails in a way the file does not list: report below via the normal path
			m := &Merged{Viol: &FoundViolation{Run: -1, Plan: pl, V: *res.Viol}}
			return reportWorldViolation(prop, m, mk, kf, t0, nil)
		}
		if res.Known[e.ID] > 0 {
			knownSeen[e.ID] = true
		}
	}

	capSec := 1500
	if tier() == "thorough" {
		capSec = 6 * 3600
	}
	outs := runChildren(os.Args[0], prop, n, *fWorkers, *fTmp, "w", nil, nil, capSec)
	m := merge(outs)
	if m.Viol != nil {
		return reportWorldViolation(prop, m, mk, kf, t0, outs)
	}
	if len(m.Mismatch) > 0 {
		n := verifyFresh(os.Args[0], prop, m.Mismatch, *fTmp)
		m.Extra["runs_whose_in_process_reexecution_differed(library keeps state between runs; fresh processes agree)"] = int64(len(m.Mismatch))
		m.Extra["of_which_verified_in_fresh_processes"] = int64(n)
	}
	for id := range m.Known {
		knownSeen[id] = true
	}
	for _, e := range kf.Entries {
		if e.Property == prop && e.Status == "known" {
			if knownSeen[e.ID] {
				fmt.Printf("KNOWN-FINDING: property=%s %s [%s, tolerated %d times in this run]\n", prop, e.What, e.ID, m.Known[e.ID])
			} else {
				fmt.Printf("note: listed finding %s was not reproduced in this run\n", e.ID)
			}
		}
	}
	writeWorldEvidence(prop, m, 0, t0)
	fmt.Printf("sim: %s held on %d runs (%d events, %d distinct non-trivial histories, %.1fs)\n", prop, m.Runs, m.Events, m.Distinct, time.Since(t0).Seconds())
	return 0
}

func writeWorldEvidence(prop string, m *Merged, violations int, t0 time.Time) {
	hit, total, missed := siteCoverage(prop, m.Hits)
	wall := time.Since(t0).Seconds()
	if len(missed) > 60 {
		missed = append(missed[:60], fmt.Sprintf("... and %d more", len(missed)-60))
	}
	var samples []interface{}
	for _, s := range m.Samples {
		var v interface{}
		_ = json.Unmarshal(s, &v)
		samples = append(samples, v)
	}
	if len(samples) == 0 {
		samples = append(samples, "no sample recorded")
	}
	cov := map[string]interface{}{
		"evaluations":         m.Runs,
		"distinct_nontrivial": m.Distinct,
		"rule":                worldRules[prop] + ". Distinct = distinct hash of the whole event log (operation kinds, error types, and the observation of every live object after every event); non-trivial = at least one event changed the observable state of some object or derived a new one.",
		"samples":             samples,
		"engine":              "worldsim (operation-granular multi-party histories, single PRNG, plan->execute, replayable)",
		"runs_per_hour":       int64(float64(m.Runs) / wall * 3600),
		"seeds_per_hour":      int64(float64(m.Runs) / wall * 3600),
		"simulated_time": map[string]interface{}{
			"operation_events":   m.Events,
			"library_statements": m.Steps,
			"skipped_ops":        m.Skipped,
			"unit":               "there is no clock in this library; simulated time is counted in operation events and in executed library statements (injected yield points)",
		},
		"faults_fired":                   m.Faults,
		"yield_sites_hit":                hit,
		"yield_sites_total":              total,
		"anchor_sites_never_hit":         missed,
		"distinct_final_states_estimate": m.States.Count(),
		"distinct_states_measure":        "HyperLogLog (2^14 registers) over the per-run hash of all observations after every event",
		"known_findings_tolerated":       m.Known,
		"aborted_runs":                   m.Aborted,
		"model_truncated_runs":           m.Truncated,
		"standard_exempt_states":         m.Exempt,
		"determinism_reexecutions_ok":    m.Redone,
		"list_read_via_iterate_fallback": m.ListViaIt,
		"components": map[string]interface{}{
			"real":   []string{"github.com/nlnwa/whatwg-url/url", "canonicalizer", "errors", "bits-and-blooms/bitset", "x/net/idna", "x/text"},
			"stub":   []string{},
			"oracle": []string{"reference model of the URL Standard (harness/model, self-tested against 1019 WPT vectors)", "per-property invariants on public getters"},
		},
		"extra": m.Extra,
	}
	writeEvidence(&Evidence{
		PropertyID: prop, Tier: tier(), Seed: masterSeed(), Level: "exploration", Coverage: cov,
		Assumptions: []string{
			"exploration: a clean batch is evidence, not proof",
			"default parser (plus WithReportValidationErrors) only, except C02 which draws arbitrary configurations",
			"the reference model is trusted as far as the WPT vectors and a reading of the standard's text go; IDNA is outside it",
			"operation-granular interleavings only: finer interleavings of mutating calls are outside the library's contract",
		},
		WallS: wall, Violations: violations,
	})
}

func reportWorldViolation(prop string, m *Merged, mk func() Checker, kf *KnownFindings, t0 time.Time, outs []*WorkerOut) int {
	fv := m.Viol
	clause := fv.V.Clause
	pred := func(p *Plan) bool {
		r := runWorld(p, mk, kf, false)
		return r.Viol != nil && r.Viol.Clause == clause && sameSignature(r.Viol, &fv.V)
	}
	var prelude *Prelude
	if !pred(&fv.Plan) {
		// Not reproducible alone: the library may carry state between runs (e.g. a package-level
		// cache). Re-execute the worker's earlier runs in this process first.
		if fv.Run < 0 {
			infra("listed known-finding example failed differently and does not reproduce")
		}
		// The attempt above has already touched the library's state in this process, so the
		// reproduction must happen in a fresh one: write the replay (with prelude) and replay it.
		prelude = &Prelude{Seed: masterSeed(), Offset: fv.Run % *fWorkers, Stride: *fWorkers, Upto: fv.Run}
		rep := Replay{Property: prop, Clause: clause, Step: fv.V.Step, Witness: fv.V.Witness, Trace: planTrace(&fv.Plan), Plan: fv.Plan, Prelude: prelude}
		rep.Original.Seed, rep.Original.Run, rep.Original.Ops = fv.Plan.Seed, fv.Run, len(fv.Plan.Ops)
		path := writeReplay(prop, &rep, fv.Run)
		cmd := exec.Command(os.Args[0], "-mode", "replay", "-file", path, "-verif", *fVerif, "-tmp", *fTmp)
		outb, err := cmd.CombinedOutput()
		code := 0
		if ee, ok := err.(*exec.ExitError); ok {
			code = ee.ExitCode()
		}
		if code != 1 {
			os.Remove(path)
			infra("violation of %s in run %d (%s) reproduces neither alone nor after re-executing the worker's earlier runs in a fresh process\n%s", prop, fv.Run, clause, tailStr(string(outb), 1500))
		}
		fmt.Printf("sim: %s violated: clause %s at step %d (depends on library state left by earlier runs of the same process; the replay re-executes them first)\n", prop, clause, fv.V.Step)
		for _, l := range planTrace(&fv.Plan) {
			fmt.Println("   ", l)
		}
		for _, k := range sortedWitness(fv.V.Witness) {
			fmt.Printf("    %s: %s\n", k, fv.V.Witness[k])
		}
		if outs != nil {
			writeWorldEvidence(prop, m, 1, t0)
		}
		fmt.Printf("VIOLATION property=%s replay=%s\n", prop, path)
		return 1
	}
	keepPatience := blockPatience
	if fv.V.Witness["blocked-in"] != "" && blockPatience > time.Second {
		blockPatience = time.Second // every candidate that still blocks costs one patience
	}
	small := shrinkWorld(fv.Plan, pred)
	blockPatience = keepPatience
	// the minimised plan must reproduce twice
	r1 := runWorld(&small, mk, kf, true)
	r2 := runWorld(&small, mk, kf, false)
	if r1.Viol == nil || r2.Viol == nil || r1.Viol.Clause != clause || r2.Viol.Clause != clause || r1.Viol.Step != r2.Viol.Step {
		// The library carries state from call to call inside this process (a cache, a memo): what the
		// shrinker's candidates left behind now decides whether the plan fails here. Settle it where
		// replays are settled, in fresh processes: the minimised plan if it fails there, else the
		// plan as found.
		for k, cand := range []Plan{small, fv.Plan} {
			cand := cand
			rep := Replay{Property: prop, Clause: clause, Step: fv.V.Step, Witness: fv.V.Witness, Trace: planTrace(&cand), Plan: cand}
			if k == 0 {
				rep.Step = -1 // wherever the minimised plan fails in a fresh process
			}
			rep.Original.Seed, rep.Original.Run, rep.Original.Ops = fv.Plan.Seed, fv.Run, len(fv.Plan.Ops)
			path := writeReplay(prop, &rep, fv.Run)
			ok := true
			var outb []byte
			for n := 0; n < 2 && ok; n++ { // twice, each in its own process
				cmd := exec.Command(os.Args[0], "-mode", "replay", "-file", path, "-verif", *fVerif, "-tmp", *fTmp)
				var err error
				outb, err = cmd.CombinedOutput()
				ee, isExit := err.(*exec.ExitError)
				ok = isExit && ee.ExitCode() == 1
			}
			if !ok {
				os.Remove(path)
				continue
			}
			fmt.Printf("sim: %s violated: clause %s (%s; the library keeps state between calls, so the plan was confirmed in fresh processes)\n", prop, clause, []string{"minimised plan", "plan as found: its minimised form does not fail in a fresh process"}[k])
			fmt.Print(tailStr(string(outb), 6000))
			if outs != nil {
				writeWorldEvidence(prop, m, 1, t0)
			}
			if !strings.Contains(string(outb), "VIOLATION property="+prop) {
				fmt.Printf("VIOLATION property=%s replay=%s\n", prop, path)
			}
			return 1
		}
		infra("violation of %s (%s, run %d) reproduces in this process but neither its minimised form nor the plan as found fails in fresh processes", prop, clause, fv.Run)
	}
	rep := Replay{Property: prop, Clause: clause, Step: r1.Viol.Step, Witness: r1.Viol.Witness, Trace: r1.Log, Plan: small}
	rep.Original.Seed, rep.Original.Run, rep.Original.Ops = fv.Plan.Seed, fv.Run, len(fv.Plan.Ops)
	path := writeReplay(prop, &rep, fv.Run)
	fmt.Printf("sim: %s violated: clause %s at step %d of the minimised plan (%d ops, from %d)\n", prop, clause, r1.Viol.Step, len(small.Ops), len(fv.Plan.Ops))
	for _, l := range r1.Log {
		fmt.Println("   ", l)
	}
	for _, k := range sortedWitness(r1.Viol.Witness) {
		fmt.Printf("    %s: %s\n", k, r1.Viol.Witness[k])
	}
	if outs != nil {
		writeWorldEvidence(prop, m, 1, t0)
	} else {
		writeWorldEvidence(prop, &Merged{Runs: 1, Distinct: 0, Faults: map[string]int{}, Known: map[string]int{}, Aborted: map[string]int{}, States: newHLL(), Extra: map[string]int64{}}, 1, t0)
	}
	fmt.Printf("VIOLATION property=%s replay=%s\n", prop, path)
	return 1
}

// runPrelude mirrors worldWorker exactly (including the determinism re-execution of every 50th plan).
func runPrelude(prop string, p *Prelude, mk func() Checker, kf *KnownFindings) {
	for i := p.Offset; i < p.Upto; i += p.Stride {
		pl := genWorldPlan(prop, p.Seed, i)
		runWorld(&pl, mk, kf, false)
		if (i/p.Stride)%50 == 0 {
			pl2 := genWorldPlan(prop, p.Seed, i)
			runWorld(&pl2, mk, kf, false)
		}
	}
}

// sameSignature keeps the shrinker on the same bug: for panics the top library frame must stay.
func sameSignature(a, b *Violation) bool {
	if a.Clause == "C02.panic" {
		return a.Witness["frame"] == b.Witness["frame"]
	}
	if a.Clause == "C02.hang" {
		return (a.Witness["blocked-in"] != "") == (b.Witness["blocked-in"] != "") // blocked, or over the statement budget
	}
	return true
}

func sortedWitness(w map[string]string) []string {
	var ks []string
	for k := range w {
		ks = append(ks, k)
	}
	sort.Strings(ks)
	return ks
}

func writeReplay(prop string, rep *Replay, run int) string {
	dir := filepath.Join(*fVerif, "replays", prop)
	_ = os.MkdirAll(dir, 0o755)
	path := filepath.Join(dir, fmt.Sprintf("%d-%d.json", masterSeed(), run))
	b, _ := json.MarshalIndent(rep, "", " ")
	if err := os.WriteFile(path, append(b, '\n'), 0o644); err != nil {
		infra("replay: %v", err)
	}
	return path
}

// ---------------------------------------------------------------- replay

func replay() int {
	data, err := os.ReadFile(*fFile)
	if err != nil {
		infra("%v", err)
	}
	var rep Replay
	if err := json.Unmarshal(data, &rep); err != nil {
		infra("replay file: %v", err)
	}
	kf, err := loadKnown(filepath.Join(*fVerif, "known_findings.json"))
	if err != nil {
		infra("%v", err)
	}
	initHits()
	if rep.Property == "C14" {
		return replaySched(&rep, kf)
	}
	mk := checkerFor(rep.Property)
	if mk == nil {
		infra("replay: unknown property %q", rep.Property)
	}
	if rep.Prelude != nil {
		runPrelude(rep.Property, rep.Prelude, mk, kf)
	}
	res := runWorld(&rep.Plan, mk, kf, true)
	for _, l := range res.Log {
		fmt.Println("   ", l)
	}
	if res.Viol != nil && res.Viol.Clause == rep.Clause && (res.Viol.Step == rep.Step || rep.Step < 0) {
		for _, k := range sortedWitness(res.Viol.Witness) {
			fmt.Printf("    %s: %s\n", k, res.Viol.Witness[k])
		}
		fmt.Printf("VIOLATION property=%s replay=%s\n", rep.Property, *fFile)
		return 1
	}
	if res.Viol != nil {
		fmt.Printf("replay: a different violation fired: %s at step %d (expected %s at step %d)\n", res.Viol.Clause, res.Viol.Step, rep.Clause, rep.Step)
		return 3
	}
	fmt.Printf("replay: not reproduced (expected %s at step %d)\n", rep.Clause, rep.Step)
	return 3
}
