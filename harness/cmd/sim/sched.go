package main

import (
	"encoding/json"
	"fmt"
	"os"
	"os/exec"
	"path/filepath"
	"runtime"
	"runtime/debug"
	"sort"
	"strconv"
	"strings"
	"time"

	"github.com/nlnwa/whatwg-url/url"
	rt "github.com/nlnwa/whatwg-url/verifrt"
)

// schedsim (C14): caller goroutines are real goroutines running the real (instrumented) library,
// but which one runs is decided only by the plan's schedule. See DESIGN.md section 5.

const (
	sharedURLBase = 1000 // task ops name shared URL i as handle 1000+i
	sharedSPBase  = 2000 // and its pre-materialised parameter handle as 2000+i
)

// ---------------------------------------------------------------- plan generation

func genSchedOps(r *RNG, g *Gen, pl *Plan, task int) []Op {
	n := r.Range(1, 6)
	var ops []Op
	nextU, nextS := 1, 1
	var priv []int
	var privSP []int
	nShared := len(pl.Shared)
	sharedHasSP := func(i int) bool {
		for _, op := range pl.Shared[i] {
			if op.K == "getsp" {
				return true
			}
		}
		return false
	}
	for len(ops) < n {
		switch r.Weighted([]int{6, 3, 3, 2, 2, 1, 2, 4, 1}) {
		case 0: // resolve against a shared base (the crawler pattern)
			if nShared == 0 {
				continue
			}
			s := r.Intn(nShared)
			ref := g.Ref()
			if r.Chance(1, 5) {
				ref = g.pick([]string{"#", "#f", "#x y", "?", "?q", ""}) // the cheapest references a crawler resolves
			}
			ops = append(ops, Op{K: "resolve", P: pl.SharedP[s], H: sharedURLBase + s, D: nextU, A: QS(ref)})
			priv = append(priv, nextU)
			nextU++
		case 1: // parse with a shared parser / profile
			p := r.Intn(len(pl.Parsers))
			op := Op{K: "parse", P: p, D: nextU, A: QS(g.URL())}
			if r.Chance(1, 3) {
				op.W, op.B, op.A = 1, QS(g.Base()), QS(g.Ref())
			}
			ops = append(ops, op)
			priv = append(priv, nextU)
			nextU++
		case 2: // getter bundle on a shared URL
			if nShared == 0 {
				continue
			}
			ops = append(ops, Op{K: "obs", H: sharedURLBase + r.Intn(nShared)})
		case 3: // clone a shared URL
			if nShared == 0 {
				continue
			}
			s := r.Intn(nShared)
			ops = append(ops, Op{K: "clone", P: pl.SharedP[s], H: sharedURLBase + s, D: nextU})
			priv = append(priv, nextU)
			nextU++
		case 4: // read pre-materialised parameters of a shared URL
			if nShared == 0 {
				continue
			}
			s := r.Intn(nShared)
			if !sharedHasSP(s) {
				continue
			}
			k := []string{"sp.get", "sp.getall", "sp.has", "sp.string"}[r.Intn(4)]
			ops = append(ops, Op{K: k, H: sharedSPBase + s, A: QS(g.Name())})
		case 5: // PercentEncodeString / NewUrl on a shared parser
			p := r.Intn(len(pl.Parsers))
			if r.Chance(1, 3) {
				ops = append(ops, Op{K: "newurl", P: p, D: nextU})
				priv = append(priv, nextU)
				nextU++
			} else {
				ops = append(ops, Op{K: "pes", P: p, A: QS(g.URL()), W: r.Intn(16)})
			}
		case 6: // shared exported tables: derive / query
			ops = append(ops, Op{K: "tbl", W: r.Intn(64), A: QS(g.pick(gHostile))})
		case 7: // private follow-ups on values this task obtained (legal mutations)
			if len(priv) == 0 {
				continue
			}
			u := priv[r.Intn(len(priv))]
			switch r.Intn(6) {
			case 5: // clearing setters: they have side effects on other components (opaque-path trimming)
				ops = append(ops, Op{K: "set", H: u, W: []int{7, 8, 7, 8, 5, 1, 2, 6}[r.Intn(8)], A: ""})
			case 0, 1:
				w := r.Intn(9)
				ops = append(ops, Op{K: "set", H: u, W: w, A: QS(g.SetterValue(w))})
			case 2:
				ops = append(ops, Op{K: "getsp", H: u, D: nextS})
				privSP = append(privSP, nextS)
				nextS++
			case 3:
				if len(privSP) == 0 {
					continue
				}
				s := privSP[r.Intn(len(privSP))]
				switch r.Intn(4) {
				case 0:
					ops = append(ops, Op{K: "sp.append", H: s, A: QS(g.Name()), B: QS(g.Value())})
				case 1:
					ops = append(ops, Op{K: "sp.set", H: s, A: QS(g.Name()), B: QS(g.Value())})
				case 2:
					ops = append(ops, Op{K: "sp.delete", H: s, A: QS(g.Name())})
				case 3:
					ops = append(ops, Op{K: "sp.sort", H: s})
				}
			case 4:
				ops = append(ops, Op{K: "resolve", H: u, D: nextU, A: QS(g.Ref())})
				priv = append(priv, nextU)
				nextU++
			}
		case 8: // read a private value
			if len(priv) == 0 {
				continue
			}
			ops = append(ops, Op{K: "obs", H: priv[r.Intn(len(priv))]})
		}
	}
	return ops
}

// freshWord returns n random lower-case letters (a word this process has very probably not seen).
func freshWord(r *RNG, n int) string {
	b := make([]byte, n)
	for i := range b {
		b[i] = byte('a' + r.Intn(26))
	}
	return string(b)
}

// genThrashOps: every operation is a ParseRef / Parse on a shared parser with a base from the plan's
// pool of distinct keys (see genSchedPlan).
func genThrashOps(r *RNG, g *Gen, pl *Plan) []Op {
	n := r.Range(3, 8)
	var ops []Op
	for i := 0; i < n; i++ {
		p := r.Intn(len(pl.Parsers))
		if r.Chance(4, 5) {
			ops = append(ops, Op{K: "parse", P: p, D: i + 1, W: 1, B: QS(g.pick(g.themeURLs)), A: QS(g.pick(g.themeRefs))})
		} else {
			ops = append(ops, Op{K: "parse", P: p, D: i + 1, A: QS(g.pick(g.themeURLs))})
		}
	}
	return ops
}

// c14Config draws a configuration for a shared parser. Result-changing options are fine here: the
// oracle is "same as alone", not a semantic one.
func c14Config(r *RNG) Config {
	switch r.Intn(8) {
	case 0, 1, 2:
		return Config{} // the package-level default parser
	case 3:
		return Config{Profile: []string{"WhatWg", "WhatWgSortQuery", "GoogleSafeBrowsing", "Semantic"}[r.Intn(4)]}
	case 4:
		return Config{Profile: "GoogleSafeBrowsing"}
	}
	c := genConfig(r, false)
	// failOnVE makes nearly everything an error; keep it rare
	if r.Chance(3, 4) {
		var o []OptSpec
		for _, x := range c.Opts {
			if x.N != "failOnVE" {
				o = append(o, x)
			}
		}
		c.Opts = o
	}
	return c
}

func genSchedPlan(master uint64, run int) Plan {
	seed := runSeed(master, "C14", run)
	r := NewRNG(seed)
	g := newGen(r)
	g.hostile = 6
	g.idna = 3
	pl := Plan{Prop: "C14", Seed: master, Run: run}
	np := r.Range(1, 3)
	for i := 0; i < np; i++ {
		pl.Parsers = append(pl.Parsers, c14Config(r))
	}
	ns := r.Weighted([]int{1, 6, 3, 1})
	for i := 0; i < ns; i++ {
		p := r.Intn(np)
		var pre []Op
		in := g.URL()
		if r.Chance(1, 2) {
			in = g.pick(corpusHrefs)
		}
		if r.Chance(1, 3) {
			in = g.pick([]string{"http://user:pw@example.com:8080/a/b/c?x=1&y=2#frag", "https://h/p/q/?a=b", "file:///C:/x/y", "foo://h/a/b?q", "http://1.2.3.4/x?k=v&k=w", "ws://[::1]:81/s?a+b=c%20d",
				"data:text/plain,hello  #intro", "mailto:x  ?q#f", "foo:bar  ?x", "sc:/.//p?q#f", "file://h/C:/a/b"})
		}
		pre = append(pre, Op{K: "parse", P: p, D: 1, A: QS(in)})
		k := r.Intn(3)
		for j := 0; j < k && r.Chance(1, 2); j++ {
			w := r.Intn(9)
			pre = append(pre, Op{K: "set", H: 1, W: w, A: QS(g.SetterValue(w))})
		}
		if r.Chance(1, 2) {
			pre = append(pre, Op{K: "getsp", H: 1, D: 1}) // materialised before sharing
			if r.Chance(1, 3) {
				pre = append(pre, Op{K: "sp.append", H: 1, A: QS(g.Name()), B: QS(g.Value())})
			}
		}
		pl.Shared = append(pl.Shared, pre)
		pl.SharedP = append(pl.SharedP, p)
	}
	thrash, crowd := false, false
	switch r.Intn(8) {
	case 0, 1, 2, 3:
		g.setTheme() // tasks of this plan work on related inputs
	case 4:
		// "thrash": many distinct keys and the same few operations from every task - what a keyed
		// cache, a pool or a memo table needs in order to collide, evict and be refilled concurrently
		g.setTheme()
		g.themeURLs = nil
		n := r.Range(8, 16)
		for i := 0; i < n; i++ {
			g.themeURLs = append(g.themeURLs, g.pick(gSchemesSpecial[:5])+"://"+g.pick([]string{"h", "example.com", "a.b", "1.2.3.4", "x"})+g.pick([]string{"", ":81", ":8080"})+"/"+g.pick(corpusTokens)+g.pick([]string{"", "/", "/a/b", "?q", "/c?d#e"}))
		}
		thrash = true
		if r.Chance(1, 2) {
			// never-seen identifiers: schemes (and hosts) this process has not met, so that whatever
			// the library interns, memoises or registers on first sight is being filled in by several
			// tasks at once
			g.themeURLs = nil
			for i := 0; i < n; i++ {
				g.themeURLs = append(g.themeURLs, freshWord(r, 5)+":"+g.pick([]string{"x", "//h/p", "/a/b", "//" + freshWord(r, 6) + ".example/"})+g.pick([]string{"", "?q", "#f"}))
			}
		}
	case 5:
		if r.Chance(1, 12) {
			crowd = true
		}
	case 6:
		if r.Chance(1, 15) {
			// a flood: thousands of distinct inputs go through parser 0 first, so that whatever the
			// library caches per key is full and evicting when the tasks start. One task then looks
			// up what was inserted 1, 2, 4, 8, ... insertions ago (capacities tend to be powers of two:
			// one of these is about to be evicted), the others insert never-seen keys meanwhile.
			f := &FloodSpec{N: []int{300, 1100, 5000, 9000, 17000}[r.Intn(5)], Kind: r.Intn(4), Salt: r.U64() % 17576}
			pl.Flood = f
			var walk []Op
			for m, k := 1, 1; m <= f.N; m, k = m*2, k+1 {
				walk = append(walk, Op{K: "parse", P: 0, D: k, A: QS(floodItem(f, f.N-m))})
			}
			pl.Tasks = append(pl.Tasks, walk)
			next := f.N
			for t := r.Range(1, 2); t > 0; t-- {
				var ins []Op
				for k := r.Range(2, 6); k > 0; k-- {
					ins = append(ins, Op{K: "parse", P: 0, D: k, A: QS(floodItem(f, next))})
					next++
				}
				pl.Tasks = append(pl.Tasks, ins)
			}
			pl.Order = "concurrent-first" // the reference is the never-concurrent server's; an in-process one would evict what the walk needs
			pl.Strategy = []string{"syncstall", "syncstall", "stallentry", "uniform", "opwise"}[r.Intn(5)]
			pl.ParkInCrit = r.Chance(1, 4)
			pl.Procs = []int{1, 4, 16}[r.Intn(3)]
			if r.Chance(1, 2) {
				// "walkstall": the walking task completes j whole look-ups, is parked at the s-th
				// synchronisation statement of the next one (after the critical section it may be in),
				// everybody else runs to the end, then the walker goes on
				pl.Strategy = "walkstall"
				pl.ParkInCrit = false
				for j := r.Intn(len(walk)); j > 0; j-- {
					pl.Schedule = append(pl.Schedule, Quantum{T: 0, Kind: rt.KOpEnd})
				}
				pl.Schedule = append(pl.Schedule, Quantum{T: 0, Kind: rt.KSync, N: int64(r.Range(1, 4))})
				for t := 1; t < len(pl.Tasks); t++ {
					pl.Schedule = append(pl.Schedule, Quantum{T: t, Kind: rt.KTaskEnd})
				}
				pl.Schedule = append(pl.Schedule, Quantum{T: 0, Kind: rt.KTaskEnd})
			}
			return pl
		}
	}
	nt := r.Range(2, 4)
	if thrash {
		nt = r.Range(3, 4)
	}
	if crowd {
		// a crowd: many tasks with one parse each, every one parked a few statements into its call,
		// then all released - more calls in flight at once than any fixed-size pool or free-list expects
		nt = []int{17, 33, 65, 66, 70, 129}[r.Intn(6)]
		for t := 0; t < nt; t++ {
			pl.Tasks = append(pl.Tasks, []Op{{K: "parse", P: r.Intn(len(pl.Parsers)), D: 1, A: QS("http://crowd" + strconv.Itoa(t) + ".example/some/path/" + strconv.Itoa(t) + "?q=" + strconv.Itoa(t) + "#frag" + strconv.Itoa(t))}})
		}
		pl.Strategy, pl.Order = "crowd", "concurrent-first"
		pl.FpEvery = false
		pl.ParkInCrit = false
		pl.Procs = 4
		return pl
	}
	for t := 0; t < nt; t++ {
		if thrash {
			pl.Tasks = append(pl.Tasks, genThrashOps(r, g, &pl))
			continue
		}
		pl.Tasks = append(pl.Tasks, genSchedOps(r, g, &pl, t))
	}
	if r.Chance(1, 2) {
		// The run-alone reference normally comes first (its statement counts place the preemptions).
		// It also warms every process-wide cache with exactly the keys the scheduled run will use, so
		// half of the plans run the scheduled phase first, with strategies that need no counts.
		pl.Order = "concurrent-first"
		pl.Strategy = []string{"uniform", "opwise", "syncstall", "syncstall", "stallentry", "stallentry", "sequential", "uniform"}[r.Intn(8)]
	} else {
		pl.Strategy = []string{"uniform", "uniform", "pct", "pct", "stall", "stall", "opwise", "sequential", "syncstall", "stallentry"}[r.Intn(10)]
	}
	pl.FpEvery = r.Chance(1, 8)
	pl.ParkInCrit = r.Chance(1, 4)
	pl.Procs = []int{1, 1, 4, 16}[r.Intn(4)]
	return pl
}

// genSchedule derives the explicit schedule from the run seed and the per-operation statement counts
// observed in the twin (run-alone) execution. steps[t][k] = statements of op k of task t;
// hot[t] = statement indices (within the task) at which in-flight-state sites were executed.
func genSchedule(pl *Plan, steps [][]int64, hot [][]int64) []Quantum {
	r := NewRNG(runSeed(pl.Seed, "C14.schedule", pl.Run))
	nt := len(pl.Tasks)
	total := make([]int64, nt)
	var grand int64
	for t := range steps {
		for _, s := range steps[t] {
			total[t] += s
		}
		grand += total[t]
	}
	var q []Quantum
	switch pl.Strategy {
	case "crowd":
		for t := 0; t < nt; t++ {
			q = append(q, Quantum{T: t, N: int64(r.Range(20, 400))})
		}
		for t := nt - 1; t >= 0; t-- {
			q = append(q, Quantum{T: t, Kind: rt.KTaskEnd})
		}
	case "syncstall", "stallentry":
		// park one task inside its k-th operation - at its j-th statement that uses a synchronisation
		// primitive (race-detector-silent logic errors live between such statements), or a few
		// statements after the operation began - let the others complete operations, resume
		i := r.Intn(nt)
		k := 0
		if len(pl.Tasks[i]) > 0 {
			k = r.Intn(len(pl.Tasks[i]))
		}
		for j := 0; j < k; j++ {
			q = append(q, Quantum{T: i, Kind: rt.KOpEnd})
		}
		if pl.Strategy == "syncstall" {
			q = append(q, Quantum{T: i, Kind: rt.KSync, N: int64(r.Range(1, 8))})
		} else {
			q = append(q, Quantum{T: i, N: int64(r.Range(1, 40))})
		}
		var others []int
		for t := 0; t < nt; t++ {
			if t != i {
				others = append(others, t)
			}
		}
		for x := len(others) - 1; x > 0; x-- {
			j := r.Intn(x + 1)
			others[x], others[j] = others[j], others[x]
		}
		switch r.Intn(3) {
		case 0:
			for _, t := range others {
				q = append(q, Quantum{T: t, Kind: rt.KTaskEnd})
			}
		case 1:
			n := r.Range(1, 4)
			for j := 0; j < n; j++ {
				for _, t := range others {
					q = append(q, Quantum{T: t, Kind: rt.KOpEnd})
				}
			}
		default:
			// a second task parked at a synchronisation statement while the first is still parked
			if len(others) > 0 {
				q = append(q, Quantum{T: others[0], Kind: rt.KSync, N: int64(r.Range(1, 8))})
				for _, t := range others[1:] {
					q = append(q, Quantum{T: t, Kind: rt.KTaskEnd})
				}
			}
		}
		q = append(q, Quantum{T: i, Kind: rt.KTaskEnd})
	case "sequential":
		for t := 0; t < nt; t++ {
			q = append(q, Quantum{T: t, Kind: rt.KTaskEnd})
		}
	case "opwise":
		n := 0
		for t := range pl.Tasks {
			n += len(pl.Tasks[t])
		}
		for i := 0; i < 2*n+4; i++ {
			q = append(q, Quantum{T: r.Intn(nt), Kind: rt.KOpEnd})
		}
	case "uniform":
		mix := r.Intn(3)
		for i := 0; i < 600; i++ {
			t := r.Intn(nt)
			switch {
			case mix == 0 || r.Chance(1, 3):
				q = append(q, Quantum{T: t, N: int64(r.Range(1, 3))})
			case mix == 1 || r.Chance(1, 2):
				q = append(q, Quantum{T: t, N: int64(r.Range(4, 80))})
			default:
				q = append(q, Quantum{T: t, Kind: rt.KOpEnd})
			}
		}
	case "pct":
		// PCT: random priorities, d change points over the step positions known from the twin run
		d := r.Range(1, 3)
		prio := make([]int, nt)
		for t := range prio {
			prio[t] = d + 1 + t
		}
		for i := nt - 1; i > 0; i-- {
			j := r.Intn(i + 1)
			prio[i], prio[j] = prio[j], prio[i]
		}
		var cps []int64
		for i := 0; i < d; i++ {
			if grand > 0 {
				cps = append(cps, int64(r.U64()%uint64(grand))+1)
			}
		}
		sort.Slice(cps, func(i, j int) bool { return cps[i] < cps[j] })
		rem := append([]int64(nil), total...)
		var done int64
		ci := 0
		for {
			best := -1
			for t := 0; t < nt; t++ {
				if rem[t] > 0 && (best < 0 || prio[t] > prio[best]) {
					best = t
				}
			}
			if best < 0 {
				break
			}
			n := rem[best]
			if ci < len(cps) && cps[ci]-done < n {
				n = cps[ci] - done
			}
			if n <= 0 {
				n = 1
			}
			q = append(q, Quantum{T: best, N: n})
			rem[best] -= n
			done += n
			if ci < len(cps) && done >= cps[ci] {
				prio[best] = d - ci // drop below every initial priority
				ci++
			}
		}
	case "stall":
		// park one task mid-call at a chosen statement until the others completed k operations (or all)
		i := r.Intn(nt)
		var n int64 = 1
		// where to park: caches and lazily created state are consulted when an operation begins and
		// written when it ends, so operation boundaries get their own share next to the statements
		// of files that hold in-flight state and the uniform choice
		opStart := func(k int) int64 {
			var o int64
			for j := 0; j < k; j++ {
				o += steps[i][j]
			}
			return o
		}
		switch k := r.Intn(4); {
		case k == 0 && len(steps[i]) > 0: // just after an operation has begun
			op := r.Intn(len(steps[i]))
			n = opStart(op) + int64(r.Range(1, 15))
		case k == 1 && len(steps[i]) > 0: // just before an operation ends
			op := r.Intn(len(steps[i]))
			n = opStart(op) + steps[i][op] - int64(r.Range(0, 14))
		case k == 2 && len(hot[i]) > 0:
			n = hot[i][r.Intn(len(hot[i]))] + int64(r.Intn(3))
		default:
			if total[i] > 0 {
				n = int64(r.U64()%uint64(total[i])) + 1
			}
		}
		if n < 1 {
			n = 1
		}
		q = append(q, Quantum{T: i, N: n})
		var others []int
		for t := 0; t < nt; t++ {
			if t != i {
				others = append(others, t)
			}
		}
		for k := len(others) - 1; k > 0; k-- {
			j := r.Intn(k + 1)
			others[k], others[j] = others[j], others[k]
		}
		if r.Chance(1, 2) {
			for _, t := range others {
				q = append(q, Quantum{T: t, Kind: rt.KTaskEnd})
			}
		} else {
			k := r.Range(1, 4)
			for j := 0; j < k; j++ {
				for _, t := range others {
					q = append(q, Quantum{T: t, Kind: rt.KOpEnd})
				}
			}
			// a second stall in another task while the first is still parked
			if len(others) > 0 && r.Chance(1, 2) {
				q = append(q, Quantum{T: others[0], N: int64(r.Range(1, 60))})
			}
		}
		q = append(q, Quantum{T: i, Kind: rt.KTaskEnd})
	}
	return q
}

// ---------------------------------------------------------------- execution

type schedWorld struct {
	parsers []url.Parser // nil entry = package-level default parser
	shared  []*url.Url
	sharedS []*url.SearchParams
	names   []string
	objs    []interface{}
}

// buildSchedWorld constructs the shared objects of a plan (sequentially, on the calling goroutine).
func buildSchedWorld(pl *Plan) *schedWorld {
	sw := &schedWorld{}
	for i, c := range pl.Parsers {
		var p url.Parser
		if c.Profile != "" || len(c.Opts) > 0 {
			p = buildParser(c)
		}
		sw.parsers = append(sw.parsers, p)
		if p != nil {
			sw.names = append(sw.names, fmt.Sprintf("parser%d(%s)", i, c.String()))
			sw.objs = append(sw.objs, p)
		}
	}
	if f := pl.Flood; f != nil {
		for i := 0; i < f.N; i++ {
			if p := sw.parsers[0]; p != nil {
				_, _ = p.Parse(floodItem(f, i))
			} else {
				_, _ = url.Parse(floodItem(f, i))
			}
		}
	}
	for i, pre := range pl.Shared {
		w := &World{Cfg: pl.Parsers[pl.SharedP[i]], P: sw.parsers[pl.SharedP[i]], U: map[int]*UH{}, S: map[int]*SH{}, Cur: map[int]Obs{}, Prev: map[int]Obs{}, CurL: map[int][]Pair{}, PrevL: map[int][]Pair{}, sched: true}
		for k, op := range pre {
			w.exec(k, op)
		}
		var u *url.Url
		var sp *url.SearchParams
		if uh := w.U[1]; uh != nil {
			u = uh.U
		}
		if sh := w.S[1]; sh != nil {
			sp = sh.SP
		}
		sw.shared = append(sw.shared, u)
		sw.sharedS = append(sw.sharedS, sp)
		if u != nil {
			sw.names = append(sw.names, fmt.Sprintf("sharedURL%d", i))
			sw.objs = append(sw.objs, u)
		}
	}
	return sw
}

// taskWorld gives one task its private world with the shared handles mapped in.
func (sw *schedWorld) taskWorld(pl *Plan) *World {
	w := &World{U: map[int]*UH{}, S: map[int]*SH{}, Cur: map[int]Obs{}, Prev: map[int]Obs{}, CurL: map[int][]Pair{}, PrevL: map[int][]Pair{}, sched: true}
	for i, u := range sw.shared {
		if u != nil {
			w.U[sharedURLBase+i] = &UH{ID: sharedURLBase + i, U: u, Prov: "shared", From: -1}
		}
		if sw.sharedS[i] != nil {
			w.S[sharedSPBase+i] = &SH{ID: sharedSPBase + i, SP: sw.sharedS[i], Of: sharedURLBase + i}
		}
	}
	return w
}

var tblSets []*url.PercentEncodeSet

// execTaskOp performs one task operation and returns its observation (what the caller sees).
func (sw *schedWorld) execTaskOp(w *World, k int, op Op) (res string) {
	defer func() {
		if e := recover(); e != nil {
			if _, ok := e.(rt.StepLimit); ok {
				res = "HANG"
				return
			}
			res = "PANIC@" + libFrame(string(debug.Stack()))
		}
	}()
	switch op.K {
	case "parse", "newurl", "pes":
		w.P = sw.parsers[op.P%len(sw.parsers)]
	case "resolve", "clone":
		// the parser is the base's own
	case "tbl":
		sets := tblSets
		s := sets[op.W%len(sets)]
		r := []rune(string(op.A) + "a")[0]
		// no fmt on task goroutines (see Obs.Key)
		switch (op.W / len(sets)) % 3 {
		case 0:
			d := s.Set(uint(r) & 0x7f)
			return "tbl.Set:" + strconv.FormatBool(d.RuneShouldBeEncoded(r)) + "/" + strconv.FormatBool(s.RuneShouldBeEncoded(r))
		case 1:
			d := s.Clear(uint(r) & 0x7f)
			return "tbl.Clear:" + strconv.FormatBool(d.RuneShouldBeEncoded(r)) + "/" + strconv.FormatBool(s.RuneShouldBeEncoded(r))
		}
		return "tbl.Test:" + strconv.FormatBool(s.RuneShouldBeEncoded(r)) + "/" + strconv.FormatBool(s.ByteShouldBeEncoded(byte(r))) + "/" + strconv.FormatBool(s.RuneNotInSet(r))
	}
	if op.K == "pes" {
		p := w.P
		if p == nil {
			p = url.NewParser()
		}
		return "pes:" + p.PercentEncodeString(string(op.A), tblSets[op.W%len(tblSets)])
	}
	ev := w.exec(k, op)
	if ev.Skipped {
		return "skipped"
	}
	if ev.Panic != "" {
		return "PANIC@" + ev.Panic
	}
	if ev.Hang {
		return "HANG"
	}
	var sb strings.Builder
	sb.WriteString(op.K)
	if ev.Err != "" {
		sb.WriteString(" err=" + ev.Err)
	}
	see := func(id int) {
		if uh := w.U[id]; uh != nil {
			sb.WriteString(" " + observe(uh.U).Key())
		}
	}
	switch {
	case ev.Created >= 0:
		see(ev.Created)
	case ev.Target >= 0:
		see(ev.Target)
	case ev.Read >= 0:
		see(ev.Read)
	}
	if ev.TargetS >= 0 {
		sh := w.S[ev.TargetS]
		switch op.K {
		case "sp.get":
			sb.WriteString(" get=" + sh.SP.Get(string(op.A)))
		case "sp.getall":
			sb.WriteString(" getall=")
			for _, v := range sh.SP.GetAll(string(op.A)) {
				sb.WriteString(strconv.Quote(v) + ",")
			}
		case "sp.has":
			sb.WriteString(" has=" + strconv.FormatBool(sh.SP.Has(string(op.A))))
		default:
			sb.WriteString(" str=" + sh.SP.String())
		}
	}
	return sb.String()
}

type SchedResult struct {
	Clause     string            `json:"clause,omitempty"`
	Witness    map[string]string `json:"witness,omitempty"`
	Steps      int64             `json:"steps"`
	Switches   int               `json:"switches"`
	InLib      int               `json:"switches_in_library"`
	ILHash     uint64            `json:"interleaving_hash"`
	ResHash    uint64            `json:"result_hash"`
	Blocked    bool              `json:"blocked,omitempty"`
	BlockedAt  []string          `json:"blocked_at,omitempty"`
	QUsed      int               `json:"quanta_used,omitempty"` // schedule entries consumed when the run blocked
	Faults     map[string]int    `json:"faults,omitempty"`
	Schedule   []Quantum         `json:"schedule,omitempty"`
	TaskAborts int               `json:"task_aborts"`
	FpNodes    int               `json:"fp_nodes"`
	Trace      []string          `json:"trace,omitempty"`
}

var globals0 FP                 // fingerprint of all package-level variables at process start
var globalsZero map[string]bool // variables that held their type's zero value at process start
var lateDone = map[string]bool{}
var globalsLocked map[string]bool // packages that declare package-level locks

// lateInit filters the names of changed package-level variables: a variable that held the zero
// value of its type at process start and has now received a value for the first time is being
// initialised late (the sync.Once pattern), not "modified after initialisation". It is accepted
// once per process and its new fingerprint becomes the baseline; whether that first write is
// properly synchronised is the race detector's call (which is why C14 runs in many short-lived
// processes). Any further change is reported.
func lateInit(changed []string, res *SchedResult) []string {
	if len(changed) == 0 {
		return nil
	}
	var out []string
	var now *FP
	for _, n := range changed {
		// An UNEXPORTED variable of a package that declares its own package-level locks (a cache next
		// to its mutex) may legitimately change; whether the lock is used correctly is for the race
		// detector and the result oracle. Exported tables stay strict.
		if i := strings.LastIndex(n, "."); i >= 0 && i+1 < len(n) && !(n[i+1] >= 'A' && n[i+1] <= 'Z') && globalsLocked[n[:i]] {
			if now == nil {
				f := fpGlobals()
				now = &f
			}
			for k, nm := range globals0.Names {
				if nm == n {
					globals0.Sums[k] = now.Sums[k]
				}
			}
			res.Faults["unexported package-level state changed in a package with its own locks (left to the race detector)"]++
			continue
		}
		if globalsZero[n] && !lateDone[n] {
			lateDone[n] = true
			if now == nil {
				f := fpGlobals()
				now = &f
			}
			for i, nm := range globals0.Names {
				if nm == n {
					globals0.Sums[i] = now.Sums[i]
				}
			}
			res.Faults["late-initialised package-level variable (accepted once)"]++
			continue
		}
		out = append(out, n)
	}
	return out
}

// runSched executes one schedsim plan: twin (alone) run, then the scheduled concurrent run.
// refWant, when not nil, is what the plan's operations returned in the reference server: a separate
// process that only ever executes operations sequentially ("run alone" in the purest sense: its
// process-wide state cannot have been touched by a concurrent call).
func runSched(pl *Plan, atomic bool, keepTrace bool, refWant [][]string) (res SchedResult) {
	res.Faults = map[string]int{}
	nt := len(pl.Tasks)
	if pl.Procs > 0 && runtime.GOMAXPROCS(0) != pl.Procs {
		runtime.GOMAXPROCS(pl.Procs) // a tuning knob of the runtime, varied per plan (sync.Pool reuse depends on it)
	}

	// ---- "run alone" reference on a twin world (before or after the scheduled run, see Plan.Order)
	want := make([][]string, nt)
	steps := make([][]int64, nt)
	hot := make([][]int64, nt)
	reference := func() bool {
		rt.Mode = 1
		rt.Limit = 0
		twin := buildSchedWorld(pl)
		for t := 0; t < nt; t++ {
			w := twin.taskWorld(pl)
			var base int64
			for k, op := range pl.Tasks[t] {
				rt.Count = 0
				rt.TraceOn, rt.Trace = true, rt.Trace[:0]
				want[t] = append(want[t], twin.execTaskOp(w, k, op))
				rt.TraceOn = false
				steps[t] = append(steps[t], rt.Count)
				for i, s := range rt.Trace {
					if hotSite[s] {
						hot[t] = append(hot[t], base+int64(i)+1)
					}
				}
				base += rt.Count
			}
		}
		if d := lateInit(globals0.Diff(fpGlobals()), &res); len(d) > 0 && res.Clause == "" {
			res.Clause = "C14.shared-unchanged"
			res.Witness = map[string]string{"changed": strings.Join(d, ","), "when": "sequential run of the plan's operations (package-level variable modified after initialisation)"}
			return false
		}
		return true
	}
	concFirst := pl.Order == "concurrent-first"
	if !concFirst {
		if !reference() {
			return
		}
	}

	// ---- the scheduled run on fresh shared objects
	sched := pl.Schedule
	if len(sched) == 0 {
		sched = genSchedule(pl, steps, hot)
	}
	if atomic {
		var a []Quantum
		for _, q := range sched {
			if q.Kind == rt.KStmts || q.Kind == rt.KSync {
				q = Quantum{T: q.T, Kind: rt.KOpEnd}
			}
			a = append(a, q)
		}
		sched = a
	}
	rt.ParkInCrit = pl.ParkInCrit
	res.Schedule = sched
	sw := buildSchedWorld(pl)
	fp0 := fpObjects(sw.names, sw.objs)
	res.FpNodes = fp0.Nodes + globals0.Nodes
	got := make([][]string, nt)
	tasks := make([]*rt.Task, nt)
	worlds := make([]*World, nt)
	for t := range tasks {
		tasks[t] = &rt.Task{ID: t, Resume: make(chan struct{}), Ev: make(chan int), OpLimit: 50_000_000}
		worlds[t] = sw.taskWorld(pl)
		got[t] = make([]string, len(pl.Tasks[t]))
	}
	done := make(chan struct{}, nt)
	rt.ResetTasks(tasks)
	rt.Mode = 2
	for t := range tasks {
		t := t
		go func() {
			tk := tasks[t]
			rt.WaitStart(tk)
			for k, op := range pl.Tasks[t] {
				rt.OpBegin(tk)
				got[t][k] = sw.execTaskOp(worlds[t], k, op)
				rt.OpEnd(tk)
			}
			rt.Finish(tk)
			done <- struct{}{}
		}()
	}
	il := newHasher()
	var viol func(clause string, kv ...string)
	viol = func(clause string, kv ...string) {
		if res.Clause != "" {
			return
		}
		f := fail(clause, kv...)
		res.Clause, res.Witness = f.Clause, f.Witness
	}
	schedLoop(pl, sched, tasks, sw, fp0, &res, il, viol, keepTrace)
	if res.Blocked {
		if !atomic && res.Clause == "" {
			// Not a verdict yet: the driver confirms it in fresh processes (reportSchedViolation) and
			// checks that the very same calls, one at a time, all return.
			res.Clause = "C14.deadlock"
			res.Witness = map[string]string{"blocked": strings.Join(res.BlockedAt, "; "), "tasks-in-flight": fmt.Sprint(len(res.BlockedAt)),
				"why": "every call in flight is blocked inside the library and none is parked by the simulator (so nobody is left to release them); no statement was executed for " + patience.String() + ". Run one at a time the same calls all return."}
		}
		return
	}
	for range tasks {
		<-done
	}
	rt.Mode = 1
	res.ILHash = il.h
	if concFirst && refWant == nil {
		reference()
	}
	if refWant != nil {
		if !concFirst {
			// the in-process sequential run (made before the scheduled one) must agree with the
			// pristine process: if it does not, an earlier concurrent run has left this process's
			// state poisoned
			for t := range want {
				for k := range want[t] {
					if t < len(refWant) && k < len(refWant[t]) && want[t][k] != refWant[t][k] {
						viol("C14.result", "task", fmt.Sprint(t), "op", fmt.Sprintf("%d: %s", k, pl.Tasks[t][k].String()), "sequential-in-this-process", q(clip(want[t][k], 300)), "alone", q(clip(refWant[t][k], 300)),
							"why", "a sequential call in a process that ran concurrent calls before returns something else than in a process that only ever ran sequential calls: process-wide state was corrupted earlier")
					}
				}
			}
		}
		want = refWant
	}
	// ---- oracles after the join
	if d := fp0.Diff(fpObjects(sw.names, sw.objs)); len(d) > 0 {
		viol("C14.shared-unchanged", "changed", strings.Join(d, ","), "when", "after all tasks finished")
	}
	if d := lateInit(globals0.Diff(fpGlobals()), &res); len(d) > 0 {
		viol("C14.shared-unchanged", "changed", strings.Join(d, ","), "when", "after all tasks finished (package-level variable)")
	}
	rh := newHasher()
	for t := range got {
		for k := range got[t] {
			rh.add(got[t][k])
			if strings.HasPrefix(got[t][k], "PANIC@") || got[t][k] == "HANG" {
				res.TaskAborts++
			}
			if got[t][k] != want[t][k] {
				viol("C14.result", "task", fmt.Sprint(t), "op", fmt.Sprintf("%d: %s", k, pl.Tasks[t][k].String()), "concurrent", q(clip(got[t][k], 300)), "alone", q(clip(want[t][k], 300)))
			}
		}
	}
	res.ResHash = rh.h
	for _, tk := range tasks {
		res.Steps += tk.Steps
	}
	return
}

func clip(s string, n int) string {
	if len(s) > n {
		return s[:n] + "..."
	}
	return s
}

var hotSite []bool

func initHotSites() {
	hotSite = make([]bool, rt.NSites+1)
	for i, n := range rt.SiteNames {
		for _, f := range []string{"url/url.go:", "url/searchparams.go:", "url/codesets.go:", "url/path.go:", "canonicalizer/canonicalizer.go:"} {
			if strings.HasPrefix(n, f) {
				hotSite[i] = true
			}
		}
	}
}

// schedLoop is the scheduler: it owns every decision. It runs on the calling goroutine with race
// synchronisation events disabled, so that the hand-off channels create no happens-before edges.
// Because its own synchronisation is invisible to the race runtime it must not touch anything that
// is shared with tasks through sync primitives (no fmt: its printer pool would look racy).
//
//go:norace
func schedLoop(pl *Plan, sched []Quantum, tasks []*rt.Task, sw *schedWorld, fp0 FP, res *SchedResult, il *hasher, viol func(string, ...string), keepTrace bool) {
	rt.SchedBegin()
	defer rt.SchedEnd()
	defer func() { rt.Current = nil }()
	live := len(tasks)
	qi := 0
	timer := time.NewTimer(time.Hour)
	defer timer.Stop()
	started := make([]bool, len(tasks))
	var lastTask = -1
	for live > 0 {
		// A task that was taken for blocked may have run to its end meanwhile (it was only slow, or it
		// was released): it has set Done and is waiting to say so. Quanta naming a finished task are
		// skipped, so nobody would ever listen, live would never reach zero and the fallback below
		// would find no task to run (seen as an index panic of the harness, exit 2, on a neutral
		// change and once on the unchanged tree under heavy load).
		for t, x := range tasks {
			if x.Done && x.Detached {
				<-x.Ev // Done is set immediately before the final send: this is EvFinish
				x.Detached = false
				rt.SlowIdent = detachedCount(tasks) > 0
				live--
				il.add("t" + strconv.Itoa(t) + ".end")
			}
		}
		if live <= 0 {
			break
		}
		var q Quantum
		if qi < len(sched) {
			q = sched[qi]
			qi++
			if q.T < 0 || q.T >= len(tasks) || tasks[q.T].Done {
				continue
			}
		} else {
			// schedule exhausted: the lowest-numbered live task that is not blocked inside the library,
			// to completion; if every live task is blocked, the lowest of those (we then wait for it)
			q = Quantum{T: -1, Kind: rt.KTaskEnd}
			for t, tk := range tasks {
				if !tk.Done && !tk.Detached {
					q.T = t
					break
				}
			}
			if q.T < 0 {
				for t, tk := range tasks {
					if !tk.Done {
						q.T = t
						break
					}
				}
			}
			if q.T < 0 {
				break // every task has finished
			}
		}
		tk := tasks[q.T]
		if tk.Detached {
			// the task was blocked inside the library when we last waited for it; has it come back?
			ev, ok := tryEvent(tk, false, timer)
			if !ok {
				if detachedCount(tasks) != liveCount(tasks) {
					continue
				}
				// Every live task is inside the library and none is parked by the simulator: nobody is
				// left whom the scheduler could run to release them. Give all of them time (one may just
				// be slow); if none reaches a yield point they are waiting for each other.
				t2, ev2, ok2 := anyEvent(tasks, patience)
				if !ok2 {
					res.Blocked = true
					res.QUsed = qi
					for t, x := range tasks {
						if !x.Done {
							res.BlockedAt = append(res.BlockedAt, "task "+strconv.Itoa(t)+" inside "+rt.SiteNames[x.Site]+" (after "+strconv.FormatInt(x.Steps, 10)+" statements)")
						}
					}
					return
				}
				q.T, tk, ev = t2, tasks[t2], ev2
			}
			tk.Detached = false
			rt.SlowIdent = detachedCount(tasks) > 0
			res.Faults["blocked task came back (library-owned lock, wait group, channel)"]++
			if ev == rt.EvFinish {
				live--
				il.add("t" + strconv.Itoa(q.T) + ".end")
			}
			continue // it is parked at a yield point now; later quanta run it as usual
		}
		if lastTask >= 0 && lastTask != q.T {
			res.Switches++
			if tasks[lastTask].InOp && !tasks[lastTask].Done {
				res.InLib++
				res.Faults["preempt(mid-call)"]++
				if q.Kind != rt.KStmts {
					res.Faults["stall(others complete whole operations)"]++
				}
			}
		}
		lastTask = q.T
		tk.Kind, tk.Budget = q.Kind, q.N
		if q.Kind == rt.KStmts && q.N <= 0 {
			tk.Budget = 1
		}
		rt.Current = tk
		_ = started
		for {
			tk.Resume <- struct{}{}
			var ev int
			if !timer.Stop() {
				select {
				case <-timer.C:
				default:
				}
			}
			timer.Reset(300 * time.Millisecond)
			detached := false
			cpu0, waited := cpuTime(), 0
		wait:
			select {
			case ev = <-tk.Ev:
			case <-timer.C:
				// The task does not come back: it waits inside the library for something another task
				// must do (a lock held by a parked task, a wait group, a channel). Leave it there
				// ("detached"), go on with the schedule; it parks at its next yield point as soon as it
				// is released. While a task is detached the runtime identifies callers by goroutine id.
				// A task that is merely slow (long input, race build, loaded machine) burns CPU meanwhile,
				// a blocked one does not: as long as the process keeps computing, keep waiting.
				// A library without a single synchronisation statement (channel operation, lock, wait,
				// atomic; marked by the instrumenter) has nothing to block on: there the task is slow or
				// the machine is loaded (seen once: load average 160, a worker got less than 30 ms of CPU
				// in 300 ms, a task was wrongly detached, the run lost its determinism and the check ended
				// with exit 2 on the unchanged tree). Wait on, with a ten-minute backstop.
				if c := cpuTime(); (c-cpu0 > 30*time.Millisecond && waited < 100) || (len(rt.SyncSites) == 0 && waited < 2000) {
					cpu0 = c
					waited++
					timer.Reset(300 * time.Millisecond)
					goto wait
				}
				detached = true
			}
			if detached {
				tk.Detached = true
				rt.SlowIdent = true
				res.Faults["task blocked inside the library (detached)"]++
				il.add("t" + strconv.Itoa(q.T) + ".blocked")
				break
			}
			if ev == rt.EvOpEnd {
				il.add("t" + strconv.Itoa(q.T) + ".op")
				if !rt.RaceBuild {
					if d := fp0.Diff(fpObjects(sw.names, sw.objs)); len(d) > 0 {
						viol("C14.shared-unchanged", "changed", strings.Join(d, ","), "when", "after an operation of task "+strconv.Itoa(q.T)+" completed")
					}
				}
				if q.Kind == rt.KOpEnd {
					break
				}
				continue // quantum not used up: same task goes on
			}
			if ev == rt.EvFinish {
				live--
				il.add("t" + strconv.Itoa(q.T) + ".end")
				break
			}
			// EvYield: preempted at a statement
			il.add("t" + strconv.Itoa(q.T) + "@" + strconv.Itoa(int(tk.Site)))
			if keepTrace {
				res.Trace = append(res.Trace, "task "+strconv.Itoa(q.T)+" preempted at "+rt.SiteNames[tk.Site]+" after "+strconv.FormatInt(tk.Steps, 10)+" statements")
			}
			if pl.FpEvery && !rt.RaceBuild {
				if d := fp0.Diff(fpObjects(sw.names, sw.objs)); len(d) > 0 {
					viol("C14.shared-unchanged", "changed", strings.Join(d, ","), "when", "task "+strconv.Itoa(q.T)+" parked at "+rt.SiteNames[tk.Site])
				}
			}
			break
		}
	}
}

func detachedCount(tasks []*rt.Task) int {
	n := 0
	for _, t := range tasks {
		if t.Detached && !t.Done {
			n++
		}
	}
	return n
}

func liveCount(tasks []*rt.Task) int {
	n := 0
	for _, t := range tasks {
		if !t.Done {
			n++
		}
	}
	return n
}

// patience: how long all tasks may stay inside the library without any of them reaching a yield
// point before the run counts as deadlocked (VERIF_PATIENCE_MS overrides; shorter while shrinking).
var patience = 5 * time.Second

// anyEvent waits until one of the detached tasks reaches a yield point (or finishes).
//
//go:norace
func anyEvent(tasks []*rt.Task, d time.Duration) (int, int, bool) {
	deadline := time.Now().Add(d)
	for {
		for t, tk := range tasks {
			if tk.Done || !tk.Detached {
				continue
			}
			select {
			case ev := <-tk.Ev:
				return t, ev, true
			default:
			}
		}
		if time.Now().After(deadline) {
			return 0, 0, false
		}
		time.Sleep(time.Millisecond)
	}
}

// tryEvent polls a detached task: has it reached a yield point meanwhile? If patient, wait up to 3 s.
//
//go:norace
func tryEvent(tk *rt.Task, patient bool, timer *time.Timer) (int, bool) {
	select {
	case ev := <-tk.Ev:
		return ev, true
	default:
	}
	d := 2 * time.Millisecond
	if patient {
		d = 3 * time.Second
	}
	if !timer.Stop() {
		select {
		case <-timer.C:
		default:
		}
	}
	timer.Reset(d)
	select {
	case ev := <-tk.Ev:
		return ev, true
	case <-timer.C:
		return 0, false
	}
}

// ---------------------------------------------------------------- worker

func schedInit() {
	if v := os.Getenv("VERIF_PATIENCE_MS"); v != "" {
		if n, err := strconv.Atoi(v); err == nil && n > 0 {
			patience = time.Duration(n) * time.Millisecond
		}
	}
	setMenu()
	tblSets = setMenu()
	initHotSites()
	rt.InitSyncSites()
	globals0 = fpGlobals()
	globalsZero = zeroGlobals()
	globalsLocked = lockedPackages()
}

// ---------------------------------------------------------------- reference server

// refClient talks to a child process (-mode refserver) that executes every plan's operations
// sequentially on a twin world and returns what each returned. The server sees the same plans in
// the same order as its client, so it is deterministic; because it never runs anything
// concurrently, its process-wide state (caches, interning tables) is what sequential use produces.
type refClient struct {
	cmd *exec.Cmd
	enc *json.Encoder
	dec *json.Decoder
}

func startRef() *refClient {
	cmd := exec.Command(os.Args[0], "-mode", "refserver", "-verif", *fVerif)
	cmd.Env = append(os.Environ(), "GORACE=halt_on_error=0")
	in, err := cmd.StdinPipe()
	if err != nil {
		infra("refserver: %v", err)
	}
	out, err := cmd.StdoutPipe()
	if err != nil {
		infra("refserver: %v", err)
	}
	cmd.Stderr = os.Stderr
	if err := cmd.Start(); err != nil {
		infra("refserver: %v", err)
	}
	return &refClient{cmd: cmd, enc: json.NewEncoder(in), dec: json.NewDecoder(out)}
}

func (r *refClient) Want(pl *Plan) [][]string {
	if r == nil {
		return nil
	}
	if err := r.enc.Encode(pl); err != nil {
		infra("refserver: send: %v", err)
	}
	var wq [][]QS // Go-quoted in transit: observations may hold invalid UTF-8, which JSON would replace
	if err := r.dec.Decode(&wq); err != nil {
		infra("refserver: receive: %v", err)
	}
	want := make([][]string, len(wq))
	for t := range wq {
		for _, x := range wq[t] {
			want[t] = append(want[t], string(x))
		}
	}
	return want
}

// refServer is the -mode refserver loop.
func refServer() {
	schedInit()
	dec := json.NewDecoder(os.Stdin)
	enc := json.NewEncoder(os.Stdout)
	for {
		var pl Plan
		if err := dec.Decode(&pl); err != nil {
			return
		}
		rt.Mode = 1
		rt.Limit = 0
		twin := buildSchedWorld(&pl)
		want := make([][]QS, len(pl.Tasks))
		for t := range pl.Tasks {
			w := twin.taskWorld(&pl)
			for k, op := range pl.Tasks[t] {
				rt.Count = 0
				want[t] = append(want[t], QS(twin.execTaskOp(w, k, op)))
			}
		}
		if err := enc.Encode(want); err != nil {
			return
		}
	}
}

var ref *refClient

func schedWorker() {
	schedInit()
	ref = startRef()
	seed := masterSeed()
	out := &WorkerOut{Prop: "C14", Faults: map[string]int{}, Known: map[string]int{}, Aborted: map[string]int{}, Extra: map[string]int64{}}
	var hashes []uint64
	states := newHLL()
	t0 := time.Now()
	prog := *fOut + ".progress"
	for i := *fOffset; i < *fRuns; i += *fStride {
		if rt.RaceBuild {
			_ = os.WriteFile(prog, []byte(fmt.Sprint(i)), 0o644)
		}
		pl := genSchedPlan(seed, i)
		res := runSched(&pl, *fAtomic || i == *fAtomic1, false, ref.Want(&pl))
		if res.Blocked {
			out.Blocked++
			out.BlockedRun = i
			out.WallS = time.Since(t0).Seconds()
			writeOut(out)
			os.Exit(4)
		}
		out.Runs++
		out.Steps += res.Steps
		out.Extra["switches"] += int64(res.Switches)
		out.Extra["switches_inside_library_calls"] += int64(res.InLib)
		out.Extra["strategy:"+pl.Strategy]++
		if pl.Order != "" {
			out.Extra["order:"+pl.Order]++
		} else {
			out.Extra["order:reference-first"]++
		}
		if pl.ParkInCrit {
			out.Extra["plans_allowed_to_park_inside_critical_sections"]++
		}
		if pl.Flood != nil {
			out.Extra["flood_plans(thousands of distinct keys first: caches full and evicting)"]++
			out.Extra["flood_inputs_parsed"] += int64(pl.Flood.N)
		}
		out.Extra[fmt.Sprintf("gomaxprocs:%d", pl.Procs)]++
		out.Extra["task_op_aborts(panic/hang, C02's business)"] += int64(res.TaskAborts)
		out.Extra["fingerprint_nodes_last"] = int64(res.FpNodes)
		for t := range pl.Tasks {
			out.Events += int64(len(pl.Tasks[t]))
		}
		for k, v := range res.Faults {
			out.Faults[k] += v
		}
		states.Add(res.ILHash)
		out.Digest = out.Digest*1099511628211 ^ res.ILHash ^ (res.ResHash * 31)
		if res.InLib > 0 {
			hashes = append(hashes, res.ILHash^res.ResHash*31)
			if len(out.Samples) < 2 && res.Switches <= 12 {
				pl.Schedule = res.Schedule
				s, _ := json.Marshal(map[string]interface{}{"run": i, "trace": schedTrace(&pl)})
				out.Samples = append(out.Samples, s)
			}
		}
		if res.Clause != "" {
			pl.Schedule = res.Schedule
			out.Viol = &FoundViolation{From: *fOffset, Run: i, Plan: pl, V: Violation{Clause: res.Clause, Witness: res.Witness}}
			break
		}
		if (i/(*fStride))%25 == 0 {
			pl2 := genSchedPlan(seed, i)
			res2 := runSched(&pl2, *fAtomic || i == *fAtomic1, false, ref.Want(&pl2))
			const det = "task blocked inside the library (detached)"
			if res.Faults[det] > 0 || res2.Faults[det] > 0 {
				// tasks blocked on primitives the simulator does not own are released in the runtime's
				// order, not the plan's: such runs are not expected to repeat exactly
				out.Extra["determinism_rechecks_skipped_task_blocked_inside_library"]++
			} else if res2.ILHash != res.ILHash || res2.ResHash != res.ResHash {
				out.Mismatch = append(out.Mismatch, i) // see worldWorker
			} else {
				out.Redone++
			}
		}
	}
	out.Hashes = dedupe(hashes)
	out.Hits = rt.Hits
	out.States = states.R
	out.WallS = time.Since(t0).Seconds()
	writeOut(out)
}

func schedTrace(pl *Plan) []string {
	var t []string
	for i, c := range pl.Parsers {
		t = append(t, fmt.Sprintf("shared parser %d: %s", i, c.String()))
	}
	if f := pl.Flood; f != nil {
		t = append(t, fmt.Sprintf("flood: %d distinct inputs parsed one after the other through parser 0 first: %s, %s, ... %s", f.N, q(floodItem(f, 0)), q(floodItem(f, 1)), q(floodItem(f, f.N-1))))
	}
	for i, pre := range pl.Shared {
		var l []string
		for _, op := range pre {
			l = append(l, op.String())
		}
		t = append(t, fmt.Sprintf("shared url %d (handle %d, parser %d): %s", i, sharedURLBase+i, pl.SharedP[i], strings.Join(l, "; ")))
	}
	for i, ops := range pl.Tasks {
		for k, op := range ops {
			t = append(t, fmt.Sprintf("task %d op %d: %s", i, k, op.String()))
		}
	}
	var qs []string
	for _, q := range pl.Schedule {
		switch q.Kind {
		case rt.KStmts:
			qs = append(qs, fmt.Sprintf("t%d:%d", q.T, q.N))
		case rt.KOpEnd:
			qs = append(qs, fmt.Sprintf("t%d:op", q.T))
		case rt.KSync:
			qs = append(qs, fmt.Sprintf("t%d:until-sync#%d", q.T, q.N))
		default:
			qs = append(qs, fmt.Sprintf("t%d:end", q.T))
		}
		if len(qs) > 40 {
			qs = append(qs, "...")
			break
		}
	}
	t = append(t, "schedule ("+pl.Strategy+", "+map[bool]string{true: "scheduled run before the run-alone reference", false: "run-alone reference first"}[pl.Order == "concurrent-first"]+"): "+strings.Join(qs, " "))
	return t
}

// ---------------------------------------------------------------- one plan in a child process

type oneResult struct {
	Res      SchedResult `json:"res"`
	Race     bool        `json:"race"`
	RaceSig  string      `json:"race_sig,omitempty"`
	RaceText string      `json:"race_text,omitempty"`
	Exit     int         `json:"exit"`
}

// schedOne (mode "schedone"): run the plan in -file, print the SchedResult as JSON.
func schedOne() {
	schedInit()
	ref = startRef()
	data, err := os.ReadFile(*fFile)
	if err != nil {
		infra("%v", err)
	}
	var pl Plan
	if err := json.Unmarshal(data, &pl); err != nil {
		infra("plan: %v", err)
	}
	// prelude: what the reporting worker process had executed before (mirrors schedWorker exactly)
	for i := *fPreFrom; i >= 0 && i < *fPreTo; i++ {
		p0 := genSchedPlan(masterSeed(), i)
		runSched(&p0, false, false, ref.Want(&p0))
		if i%25 == 0 {
			p1 := genSchedPlan(masterSeed(), i)
			runSched(&p1, false, false, ref.Want(&p1))
		}
	}
	res := runSched(&pl, *fAtomic, true, ref.Want(&pl))
	b, _ := json.Marshal(res)
	if err := os.WriteFile(*fOut, b, 0o644); err != nil {
		infra("%v", err)
	}
}

// raceSignature extracts the unordered pair of top library frames from a race report.
func raceSignature(report string) string {
	var tops []string
	lines := strings.Split(report, "\n")
	for i := 0; i < len(lines); i++ {
		l := strings.TrimSpace(lines[i])
		if strings.HasPrefix(l, "Write at") || strings.HasPrefix(l, "Read at") || strings.HasPrefix(l, "Previous write at") || strings.HasPrefix(l, "Previous read at") {
			// the following lines alternate "func(...)" / "file:line +0x.."; find the first library frame
			for j := i + 1; j < len(lines) && strings.TrimSpace(lines[j]) != ""; j++ {
				fl := strings.TrimSpace(lines[j])
				if strings.Contains(fl, "whatwg-url") && strings.Contains(fl, ".go:") && !strings.Contains(fl, "/verifrt/") {
					tops = append(tops, libFrame(fl))
					break
				}
			}
		}
	}
	if len(tops) > 2 {
		tops = tops[:2]
	}
	sort.Strings(tops)
	return strings.Join(tops, " <-> ")
}

// runOne executes one plan in a fresh child (plain or race build) and returns what happened.
func runOne(bin string, pl *Plan, tmp string, atomic bool) oneResult {
	return runOnePre(bin, pl, tmp, atomic, nil)
}

var childPatienceMS int // >0: children declare a deadlock after this long (used while shrinking one)

// runOnePre: like runOne, after re-executing a prelude of earlier runs in the same child process.
func runOnePre(bin string, pl *Plan, tmp string, atomic bool, pre *Prelude) oneResult {
	pf := filepath.Join(tmp, fmt.Sprintf("one-%d.json", time.Now().UnixNano()))
	b, _ := json.Marshal(pl)
	_ = os.WriteFile(pf, b, 0o644)
	defer os.Remove(pf)
	of := pf + ".out"
	defer os.Remove(of)
	rl := pf + ".race"
	args := []string{"-mode", "schedone", "-file", pf, "-out", of, "-verif", *fVerif}
	if atomic {
		args = append(args, "-atomic")
	}
	if pre != nil {
		args = append(args, "-seed", fmt.Sprint(pre.Seed), "-prelude-from", fmt.Sprint(pre.Offset), "-prelude-to", fmt.Sprint(pre.Upto))
	}
	cmd := exec.Command(bin, args...)
	cmd.Env = append(os.Environ(), "GORACE=halt_on_error=1 exitcode=66 log_path="+rl)
	if childPatienceMS > 0 {
		cmd.Env = append(cmd.Env, fmt.Sprint("VERIF_PATIENCE_MS=", childPatienceMS))
	}
	var r oneResult
	outb, err := cmd.CombinedOutput()
	if err != nil {
		if ee, ok := err.(*exec.ExitError); ok {
			r.Exit = ee.ExitCode()
		} else {
			infra("runOne: %v", err)
		}
	}
	if r.Exit == 66 {
		r.Race = true
		ms, _ := filepath.Glob(rl + ".*")
		for _, m := range ms {
			d, _ := os.ReadFile(m)
			r.RaceText += string(d)
			os.Remove(m)
		}
		r.RaceSig = raceSignature(r.RaceText)
		return r
	}
	ms, _ := filepath.Glob(rl + ".*")
	for _, m := range ms {
		os.Remove(m)
	}
	if r.Exit != 0 {
		infra("runOne: child exit %d: %s", r.Exit, tailStr(string(outb), 2000))
	}
	d, err := os.ReadFile(of)
	if err != nil {
		infra("runOne: %v", err)
	}
	if err := json.Unmarshal(d, &r.Res); err != nil {
		infra("runOne: %v", err)
	}
	return r
}

// ---------------------------------------------------------------- drive

var schedTier = map[string][2]int{ // plain runs, race runs
	"quick":    {100_000, 8_000},
	"thorough": {4_000_000, 400_000},
}

const schedRule = "seeded plans: 1-3 shared parsers/profiles (random option subsets, the four predefined profiles, the package-level functions), 0-3 shared base URLs (parsed, some taken through setters, some with SearchParams materialised before sharing), 2-4 tasks of 1-6 operations from the read-only vocabulary (Parse/ParseRef, (*Url).Parse against a shared base, getter bundle, Clone, Get/GetAll/Has/String on pre-materialised parameters, PercentEncodeString, NewUrl, Set/Clear/test on exported encode sets) plus private mutating follow-ups on the task's own results; real goroutines run the instrumented library, a yield point before every statement hands control to a seeded scheduler (strategies: uniform quanta, PCT priorities with 1-3 change points, stall-at-statement, operation-wise, sequential control). Oracles: Go race detector made blind to the simulator's hand-off (C14.race), every operation's observation equals the run-alone twin's (C14.result), deep reflection fingerprints of all shared objects and of every package-level variable of the module (C14.shared-unchanged). Distinct = distinct (interleaving hash, result hash); non-trivial = at least one context switch happened while the preempted task was inside a library call."

func driveSched(kf *KnownFindings, t0 time.Time) int {
	if *fRace == "" {
		infra("C14 needs -racebin")
	}
	nPlain, nRace := schedTier[tier()][0], schedTier[tier()][1]
	if *fRuns > 0 {
		nPlain = *fRuns
	}
	if *fRaceN > 0 {
		nRace = *fRaceN
	}
	fmt.Printf("sim: property=C14 tier=%s seed=%d plain-runs=%d race-runs=%d workers=%d sites=%d\n", tier(), masterSeed(), nPlain, nRace, *fWorkers, rt.NSites)
	capSec := 1500
	if tier() == "thorough" {
		capSec = 6 * 3600
	}
	// phase A: race build
	raceOuts, raceViol := runSchedChildren(*fRace, nRace, "race", capSec)
	mr := merge(raceOuts)
	if raceViol != nil {
		return reportSchedViolation(raceViol, true, mr, nil, t0)
	}
	if mr.Viol != nil {
		return reportSchedViolation(mr.Viol, true, mr, nil, t0)
	}
	// phase B: plain build, many more schedules, result + fingerprint oracles
	plainOuts, _ := runSchedChildren(os.Args[0], nPlain, "plain", capSec)
	mp := merge(plainOuts)
	if mp.Viol != nil {
		return reportSchedViolation(mp.Viol, false, mr, mp, t0)
	}
	if len(mr.Mismatch) > 0 {
		n := verifyFresh(*fRace, "C14", mr.Mismatch, *fTmp)
		mr.Extra["runs_whose_in_process_reexecution_differed(library keeps state between runs; fresh processes agree)"] = int64(len(mr.Mismatch))
		mr.Extra["of_which_verified_in_fresh_processes"] = int64(n)
	}
	if len(mp.Mismatch) > 0 {
		n := verifyFresh(os.Args[0], "C14", mp.Mismatch, *fTmp)
		mp.Extra["runs_whose_in_process_reexecution_differed(library keeps state between runs; fresh processes agree)"] = int64(len(mp.Mismatch))
		mp.Extra["of_which_verified_in_fresh_processes"] = int64(n)
	}
	if unrepeatable > 0 {
		mp.Extra["runs_not_repeatable_across_fresh_processes(the library uses sync primitives whose behaviour is the runtime's, e.g. sync.Pool reuse)"] = int64(unrepeatable)
		fmt.Printf("note: %d sampled C14 runs do not repeat exactly across fresh processes; the library uses synchronisation primitives of its own (%d statements), some of which behave as the runtime pleases\n", unrepeatable, len(rt.SyncSites))
	}
	writeSchedEvidence(mr, mp, 0, t0)
	fmt.Printf("sim: C14 held on %d race-detector runs and %d plain runs (%d+%d context switches, %.1fs)\n", mr.Runs, mp.Runs, mr.Extra["switches"], mp.Extra["switches"], time.Since(t0).Seconds())
	return 0
}

// runSchedChildren runs the workers; a worker that exits 66 (race detector) yields a violation whose
// plan is regenerated from the run index it had flushed; a worker that exits 4 (task blocked on a
// primitive the simulator does not own) is restarted from that run with operation-atomic quanta.
func runSchedChildren(bin string, n int, tag string, capSec int) ([]*WorkerOut, *FoundViolation) {
	tmp := *fTmp
	workers := *fWorkers
	// The runs are cut into contiguous chunks, each executed by its own short-lived process, at
	// most `workers` at a time. Many fresh processes matter: state that the library initialises
	// lazily on first use exists once per process, so only the first plans of a process can see a
	// race (or a difference) in that initialisation.
	chunk := n / (workers * 12)
	if chunk < 25 {
		chunk = 25
	}
	if chunk > 2000 {
		chunk = 2000
	}
	type job struct {
		id, from, to int
		atomic       bool
		atomic1      int // this one run with operation-atomic quanta (-1: none)
	}
	blocks := 0
	var queue []job
	for a, id := 0, 0; a < n; a, id = a+chunk, id+1 {
		b := a + chunk
		if b > n {
			b = n
		}
		queue = append(queue, job{id: id, from: a, to: b, atomic1: -1})
	}
	type child struct {
		cmd *exec.Cmd
		out string
		j   job
	}
	start := func(j job) *child {
		out := filepath.Join(tmp, fmt.Sprintf("w-C14-%s-%d.json", tag, j.id))
		args := []string{"-mode", "worker", "-prop", "C14", "-seed", fmt.Sprint(masterSeed()), "-runs", fmt.Sprint(j.to), "-stride", "1", "-offset", fmt.Sprint(j.from), "-out", out, "-verif", *fVerif, "-tmp", tmp}
		if j.atomic {
			args = append(args, "-atomic")
		}
		if j.atomic1 >= 0 {
			args = append(args, "-atomicrun", fmt.Sprint(j.atomic1))
		}
		cmd := exec.Command(bin, args...)
		lf, _ := os.Create(out + ".log")
		cmd.Stdout, cmd.Stderr = lf, lf
		cmd.Env = append(os.Environ(), "GORACE=halt_on_error=1 exitcode=66 log_path="+out+".racelog")
		if err := cmd.Start(); err != nil {
			infra("start worker: %v", err)
		}
		go func() { _ = lf }()
		return &child{cmd, out, j}
	}
	type fin struct {
		c   *child
		err error
	}
	done := make(chan fin, workers*4)
	running := 0
	launch := func(j job) {
		c := start(j)
		running++
		go func() { done <- fin{c, c.cmd.Wait()} }()
	}
	cleanup := func(c *child) {
		os.Remove(c.out)
		os.Remove(c.out + ".hashes")
		os.Remove(c.out + ".log")
		os.Remove(c.out + ".progress")
		ms, _ := filepath.Glob(c.out + ".racelog.*")
		for _, m := range ms {
			os.Remove(m)
		}
	}
	readOut := func(c *child) *WorkerOut {
		var o WorkerOut
		d, err := os.ReadFile(c.out)
		if err != nil || json.Unmarshal(d, &o) != nil {
			infra("C14 worker for runs [%d,%d) wrote no result", c.j.from, c.j.to)
		}
		o.Hashes = readHashes(c.out + ".hashes")
		return &o
	}
	deadline := time.After(time.Duration(capSec) * time.Second)
	var outs []*WorkerOut
	var viol *FoundViolation
	deadlocks := 0
	for len(queue) > 0 || running > 0 {
		for running < workers && len(queue) > 0 && viol == nil {
			launch(queue[0])
			queue = queue[1:]
		}
		if running == 0 {
			break
		}
		select {
		case f := <-done:
			running--
			c := f.c
			code := 0
			if f.err != nil {
				if ee, ok := f.err.(*exec.ExitError); ok {
					code = ee.ExitCode()
				} else {
					infra("worker: %v", f.err)
				}
			}
			switch code {
			case 0:
				outs = append(outs, readOut(c))
			case 4:
				o := readOut(c)
				if c.j.atomic || c.j.atomic1 == o.BlockedRun {
					infra("C14 worker blocked even with operation-atomic quanta (run %d)", o.BlockedRun)
				}
				outs = append(outs, o)
				blocks++
				if !c.j.atomic && deadlocks < 3 {
					// Every call in flight blocked inside the library with nobody left to release them.
					// Confirm in a fresh process; a confirmed deadlock is a violation, anything else
					// falls back to operation-atomic quanta as before.
					deadlocks++
					bp := genSchedPlan(masterSeed(), o.BlockedRun)
					if r := runOne(bin, &bp, *fTmp, false); !r.Race && r.Res.Blocked && r.Res.Clause == "C14.deadlock" {
						v := &FoundViolation{From: o.BlockedRun, Run: o.BlockedRun, Plan: bp, V: Violation{Clause: "C14.deadlock", Witness: r.Res.Witness}}
						if viol == nil || v.Run < viol.Run {
							viol = v
						}
					}
				}
				// A task was parked with a lock in its hands (the simulator does not own the library's
				// locks). The process is poisoned (a leaked goroutine still holds the lock), so the rest
				// of the chunk goes to a fresh process, the blocked plan with operation-atomic quanta.
				// If this keeps happening, everything left is run operation-atomically.
				nj := job{id: c.j.id + 100000*blocks, from: o.BlockedRun, to: c.j.to, atomic1: o.BlockedRun}
				if blocks > 12 {
					nj.atomic = true
					for i := range queue {
						queue[i].atomic = true
					}
				}
				queue = append([]job{nj}, queue...)
			case 66:
				pd, _ := os.ReadFile(c.out + ".progress")
				var run int
				fmt.Sscan(string(pd), &run)
				text := ""
				ms, _ := filepath.Glob(c.out + ".racelog.*")
				for _, m := range ms {
					d, _ := os.ReadFile(m)
					text += string(d)
				}
				pl := genSchedPlan(masterSeed(), run)
				v := &FoundViolation{From: c.j.from, Run: run, Plan: pl, V: Violation{Clause: "C14.race", Witness: map[string]string{"signature": raceSignature(text), "report": clip(text, 6000), "atomic": fmt.Sprint(c.j.atomic)}}}
				if viol == nil || v.Run < viol.Run {
					viol = v
				}
			default:
				lg, _ := os.ReadFile(c.out + ".log")
				infra("C14 worker for runs [%d,%d) (%s) exit %d\n%s", c.j.from, c.j.to, tag, code, tailStr(string(lg), 3000))
			}
			cleanup(c)
			if len(outs) > 0 && outs[len(outs)-1].Viol != nil && viol == nil {
				// a plain-oracle violation: stop launching further chunks
				queue = nil
			}
		case <-deadline:
			infra("watchdog: C14 workers (%s) exceeded %d s", tag, capSec)
		}
	}
	return outs, viol
}

func writeSchedEvidence(mr, mp *Merged, violations int, t0 time.Time) {
	wall := time.Since(t0).Seconds()
	if mp == nil {
		mp = &Merged{Faults: map[string]int{}, Extra: map[string]int64{}, States: newHLL()}
	}
	hits := make([]uint64, rt.NSites+1)
	for i := range hits {
		if i < len(mr.Hits) {
			hits[i] += mr.Hits[i]
		}
		if i < len(mp.Hits) {
			hits[i] += mp.Hits[i]
		}
	}
	hit, total, missed := siteCoverage("C14", hits)
	if len(missed) > 60 {
		missed = append(missed[:60], fmt.Sprintf("... and %d more", len(missed)-60))
	}
	faults := map[string]int{}
	for k, v := range mr.Faults {
		faults[k] += v
	}
	for k, v := range mp.Faults {
		faults[k] += v
	}
	var samples []interface{}
	for _, s := range append(mr.Samples, mp.Samples...) {
		var v interface{}
		_ = json.Unmarshal(s, &v)
		samples = append(samples, v)
	}
	if len(samples) > 4 {
		samples = samples[:4]
	}
	if len(samples) == 0 {
		samples = append(samples, "no sample recorded")
	}
	st := newHLL()
	st.Merge(mr.States)
	st.Merge(mp.States)
	runs := mr.Runs + mp.Runs
	cov := map[string]interface{}{
		"evaluations":         runs,
		"distinct_nontrivial": mr.Distinct + mp.Distinct,
		"rule":                schedRule,
		"samples":             samples,
		"engine":              "schedsim (seeded goroutine scheduler over AST-inserted yield points; race detector as oracle)",
		"race_detector_runs":  mr.Runs,
		"plain_runs":          mp.Runs,
		"runs_per_hour":       int64(float64(runs) / wall * 3600),
		"seeds_per_hour":      int64(float64(runs) / wall * 3600),
		"simulated_time": map[string]interface{}{
			"task_operations":               mr.Events + mp.Events,
			"library_statements":            mr.Steps + mp.Steps,
			"context_switches":              mr.Extra["switches"] + mp.Extra["switches"],
			"switches_inside_library_calls": mr.Extra["switches_inside_library_calls"] + mp.Extra["switches_inside_library_calls"],
			"unit":                          "no clock in this library; simulated time is counted in scheduled library statements",
		},
		"faults_fired":                    faults,
		"distinct_interleavings_estimate": st.Count(),
		"distinct_interleavings_measure":  "HyperLogLog (2^14 registers) over the hash of the sequence of (task, yield site at which it was preempted / operation boundary)",
		"yield_sites_hit":                 hit,
		"yield_sites_total":               total,
		"anchor_sites_never_hit":          missed,
		"determinism_reexecutions_ok":     mr.Redone + mp.Redone,
		"race_extra":                      mr.Extra,
		"plain_extra":                     mp.Extra,
		"components": map[string]interface{}{
			"real":   []string{"github.com/nlnwa/whatwg-url/url", "canonicalizer", "errors", "bits-and-blooms/bitset", "x/net/idna", "x/text", "Go runtime goroutines (parked and released one at a time)"},
			"stub":   []string{},
			"oracle": []string{"Go race detector (ThreadSanitizer) with the simulator's hand-off hidden via runtime.RaceDisable + go:norace", "twin run-alone execution", "reflection fingerprints of shared objects and all package-level variables"},
		},
	}
	writeEvidence(&Evidence{
		PropertyID: "C14", Tier: tier(), Seed: masterSeed(), Level: "exploration", Coverage: cov,
		Assumptions: []string{
			"exploration: the race oracle reports races between accesses that executed in some run; a racy path no plan reaches is not seen",
			"not demanded: concurrent mutation of one value; concurrent first calls of SearchParams() on a shared URL",
			"yield points are inserted at statement granularity; interleavings inside a single statement are covered by the race detector (any conflicting pair that executes is reported whatever the interleaving), not by the scheduler",
		},
		WallS: wall, Violations: violations,
	})
}

// ---------------------------------------------------------------- violation: confirm, shrink, report

func reportSchedViolation(fv *FoundViolation, race bool, mr, mp *Merged, t0 time.Time) int {
	bin := os.Args[0]
	if race {
		bin = *fRace
	}
	clause := fv.V.Clause
	atomic := fv.V.Witness["atomic"] == "true"
	sig := fv.V.Witness["signature"]
	// confirm alone in a fresh child; adopt the concrete schedule
	first := runOne(bin, &fv.Plan, *fTmp, atomic)
	matches := func(r oneResult) bool {
		if clause == "C14.race" {
			return r.Race && (sig == "" || r.RaceSig == sig)
		}
		return !r.Race && r.Res.Clause == clause
	}
	if !matches(first) && clause == "C14.race" && first.Race {
		sig = first.RaceSig // batch-mode report may name other frames first; keep the alone-run signature
	}
	var pre *Prelude
	if !matches(first) {
		// The library may carry process-wide state (a cache in the package-level default parser): the
		// violation then needs what the earlier runs of the reporting process left behind.
		pre = &Prelude{Seed: masterSeed(), Offset: fv.From, Stride: 1, Upto: fv.Run}
		first = runOnePre(bin, &fv.Plan, *fTmp, atomic, pre)
		if !matches(first) && clause == "C14.race" && first.Race {
			sig = first.RaceSig
		}
		if !matches(first) {
			infra("C14 violation %s of run %d reproduces neither alone nor after re-executing runs [%d,%d) in a fresh process", clause, fv.Run, fv.From, fv.Run)
		}
	}
	pl := fv.Plan
	if len(pl.Schedule) == 0 && !first.Race {
		pl.Schedule = first.Res.Schedule
	}
	if len(pl.Schedule) == 0 {
		// race child died before reporting its schedule: obtain it from a plain child
		p := runOnePre(os.Args[0], &fv.Plan, *fTmp, atomic, pre)
		pl.Schedule = p.Res.Schedule
		if !matches(runOnePre(bin, &pl, *fTmp, atomic, pre)) {
			infra("C14 violation does not reproduce under its explicit schedule")
		}
	}
	// a candidate counts only if it reproduces twice in fresh processes (keeps the minimised plan
	// away from anything whose detection depends on accidental synchronisation inside dependencies)
	if clause == "C14.deadlock" && first.Res.QUsed > 0 && first.Res.QUsed < len(pl.Schedule) {
		// nothing after the point where everybody was blocked was ever used
		c := pl
		c.Schedule = append([]Quantum(nil), pl.Schedule[:first.Res.QUsed]...)
		if matches(runOnePre(bin, &c, *fTmp, atomic, pre)) {
			pl = c
		}
	}
	pred := func(p *Plan) bool {
		if clause == "C14.deadlock" {
			return matches(runOnePre(bin, p, *fTmp, atomic, pre)) // nothing accidental about calls that never return
		}
		return matches(runOnePre(bin, p, *fTmp, atomic, pre)) && matches(runOnePre(bin, p, *fTmp, atomic, pre))
	}
	small := pl
	if clause == "C14.deadlock" {
		// every candidate waits out the patience twice: few candidates, shorter patience
		childPatienceMS, shrinkBudget = 1000, 30
	}
	if pl.Flood != nil {
		shrinkBudget = 60 // every candidate parses the flood again, twice (worker and reference server), in two fresh processes
	}
	if pre == nil || !race {
		small = shrinkSched(pl, pred) // with a prelude every candidate re-executes it: plain build only
	}
	childPatienceMS, shrinkBudget = 0, 400
	r1 := runOnePre(bin, &small, *fTmp, atomic, pre)
	r2 := r1
	if clause == "C14.deadlock" || len(rt.SyncSites) > 0 {
		// (the same holds for a library that uses synchronisation primitives of its own, some of
		// which - sync.Pool - behave as the runtime pleases: see verifyFresh)
		// Once tasks block on primitives the simulator does not own, the order in which they are
		// released is the runtime's, not the plan's: a deadlock need not form on every execution of
		// the same plan. One that forms is a fact all the same (calls that never return cannot be
		// accidental), so it must be seen again at least once in three further fresh processes.
		for i := 0; i < 3 && !matches(r1); i++ {
			r1 = runOnePre(bin, &small, *fTmp, atomic, pre)
		}
		r2 = r1
	} else {
		r2 = runOnePre(bin, &small, *fTmp, atomic, pre)
	}
	if !matches(r1) || !matches(r2) {
		b, _ := json.Marshal(small)
		infra("minimised C14 plan does not reproduce deterministically: want clause %s sig %q; run1 race=%v sig=%q clause=%q; run2 race=%v sig=%q clause=%q\nplan: %s", clause, sig, r1.Race, r1.RaceSig, r1.Res.Clause, r2.Race, r2.RaceSig, r2.Res.Clause, b)
	}
	rep := Replay{Property: "C14", Clause: clause, Plan: small, Trace: schedTrace(&small), Prelude: pre}
	if pre != nil {
		rep.Trace = append([]string{fmt.Sprintf("prelude: runs [%d,%d) of seed %d are re-executed in the same process first (the library carries process-wide state)", pre.Offset, pre.Upto, pre.Seed)}, rep.Trace...)
	}
	if clause == "C14.race" {
		rep.Witness = map[string]string{"signature": r1.RaceSig, "report": clip(r1.RaceText, 8000), "atomic": fmt.Sprint(atomic)}
	} else {
		rep.Witness = r1.Res.Witness
		rep.Trace = append(rep.Trace, r1.Res.Trace...)
	}
	rep.Original.Seed, rep.Original.Run = fv.Plan.Seed, fv.Run
	for _, t := range fv.Plan.Tasks {
		rep.Original.Ops += len(t)
	}
	path := writeReplay("C14", &rep, fv.Run)
	fmt.Printf("sim: C14 violated: clause %s (run %d)\n", clause, fv.Run)
	for _, l := range rep.Trace {
		fmt.Println("   ", l)
	}
	for _, k := range sortedWitness(rep.Witness) {
		fmt.Printf("    %s: %s\n", k, rep.Witness[k])
	}
	if mr == nil {
		mr = &Merged{Faults: map[string]int{}, Extra: map[string]int64{}, States: newHLL()}
	}
	writeSchedEvidence(mr, mp, 1, t0)
	fmt.Printf("VIOLATION property=C14 replay=%s\n", path)
	return 1
}

// shrinkSched: drop tasks, ops, shared objects, context switches; shorten strings.
var shrinkBudget = 400

func shrinkSched(p Plan, pred failPred) Plan {
	budget := shrinkBudget
	try := func(c Plan) bool {
		if budget <= 0 {
			return false
		}
		budget--
		return pred(&c)
	}
	// 0. a smaller flood (each candidate re-parses it): halve while the violation persists
	for p.Flood != nil && p.Flood.N > 1 {
		c := p
		f := *p.Flood
		f.N /= 2
		c.Flood = &f
		if !try(c) {
			break
		}
		p = c
	}
	// 1. drop whole tasks (keep schedule entries consistent by renumbering)
	for t := len(p.Tasks) - 1; t >= 0 && len(p.Tasks) > 1; t-- {
		c := p
		c.Tasks = append(append([][]Op(nil), p.Tasks[:t]...), p.Tasks[t+1:]...)
		c.Schedule = nil
		for _, q := range p.Schedule {
			if q.T == t {
				continue
			}
			if q.T > t {
				q.T--
			}
			c.Schedule = append(c.Schedule, q)
		}
		if try(c) {
			p = c
		}
	}
	// 2. per task: ddmin over ops
	for t := range p.Tasks {
		t := t
		get := func(p *Plan) []Op { return p.Tasks[t] }
		set := func(p *Plan, o []Op) {
			ts := append([][]Op(nil), p.Tasks...)
			ts[t] = o
			p.Tasks = ts
		}
		p = ddminOps(p, get, set, pred, &budget)
	}
	// 3. shared construction histories
	for s := range p.Shared {
		s := s
		get := func(p *Plan) []Op { return p.Shared[s] }
		set := func(p *Plan, o []Op) {
			ss := append([][]Op(nil), p.Shared...)
			ss[s] = o
			p.Shared = ss
		}
		if len(p.Shared[s]) > 1 {
			p = ddminOps(p, get, set, pred, &budget)
		}
	}
	// 4. parser configurations: drop options
	for i := range p.Parsers {
		for k := 0; k < len(p.Parsers[i].Opts) && budget > 0; {
			c := p
			ps := append([]Config(nil), p.Parsers...)
			ps[i].Opts = append(append([]OptSpec(nil), p.Parsers[i].Opts[:k]...), p.Parsers[i].Opts[k+1:]...)
			c.Parsers = ps
			if try(c) {
				p = c
			} else {
				k++
			}
		}
	}
	// 5. schedule: truncate (fallback = lowest runnable task to completion), merge neighbours, shorten
	for len(p.Schedule) > 0 && budget > 0 {
		c := p
		c.Schedule = p.Schedule[:len(p.Schedule)/2]
		if try(c) {
			p = c
		} else {
			break
		}
	}
	for i := len(p.Schedule) - 1; i >= 0 && budget > 0; i-- {
		if i >= len(p.Schedule) {
			continue
		}
		c := p
		c.Schedule = append(append([]Quantum(nil), p.Schedule[:i]...), p.Schedule[i+1:]...)
		if try(c) {
			p = c
		}
	}
	for i := range p.Schedule {
		if p.Schedule[i].Kind == rt.KStmts && p.Schedule[i].N > 1 && budget > 0 {
			c := p
			c.Schedule = append([]Quantum(nil), p.Schedule...)
			c.Schedule[i].Kind, c.Schedule[i].N = rt.KOpEnd, 0
			if try(c) {
				p = c
			}
		}
	}
	// 6. strings
	for t := range p.Tasks {
		t := t
		get := func(p *Plan) []Op { return p.Tasks[t] }
		set := func(p *Plan, o []Op) {
			ts := append([][]Op(nil), p.Tasks...)
			ts[t] = o
			p.Tasks = ts
		}
		b := budget
		if b > 60 {
			b = 60
		}
		budget -= b
		p = shrinkOpsStrings(p, get, set, pred, &b)
		budget += b
	}
	return p
}

func replaySched(rep *Replay, kf *KnownFindings) int {
	bin := os.Args[0]
	if rep.Clause == "C14.race" {
		if *fRace == "" {
			infra("replaying a C14.race violation needs -racebin")
		}
		bin = *fRace
	}
	atomic := rep.Witness["atomic"] == "true"
	r := runOnePre(bin, &rep.Plan, *fTmp, atomic, rep.Prelude)
	reproduced := func(r oneResult) bool {
		if rep.Clause == "C14.race" {
			return r.Race && r.RaceSig == rep.Witness["signature"]
		}
		return !r.Race && r.Res.Clause == rep.Clause
	}
	for i := 0; i < 3 && (rep.Clause == "C14.deadlock" || len(rt.SyncSites) > 0) && !reproduced(r); i++ {
		// see reportSchedViolation: where the library blocks on, or pools through, primitives the
		// simulator does not own, the same plan need not take the same course every time
		r = runOnePre(bin, &rep.Plan, *fTmp, atomic, rep.Prelude)
	}
	for _, l := range schedTrace(&rep.Plan) {
		fmt.Println("   ", l)
	}
	if rep.Clause == "C14.race" {
		if r.Race && r.RaceSig == rep.Witness["signature"] {
			fmt.Println(clip(r.RaceText, 4000))
			fmt.Printf("VIOLATION property=C14 replay=%s\n", *fFile)
			return 1
		}
		if r.Race {
			fmt.Printf("replay: a different race fired: %s (expected %s)\n", r.RaceSig, rep.Witness["signature"])
			return 3
		}
		fmt.Println("replay: not reproduced")
		return 3
	}
	if !r.Race && r.Res.Clause == rep.Clause {
		for _, l := range r.Res.Trace {
			fmt.Println("   ", l)
		}
		for _, k := range sortedWitness(r.Res.Witness) {
			fmt.Printf("    %s: %s\n", k, r.Res.Witness[k])
		}
		fmt.Printf("VIOLATION property=C14 replay=%s\n", *fFile)
		return 1
	}
	fmt.Printf("replay: not reproduced (got clause %q race=%v)\n", r.Res.Clause, r.Race)
	return 3
}
