package main

import "time"

func schedWorker()                                   { infra("schedsim not built yet") }
func driveSched(kf *KnownFindings, t0 time.Time) int { infra("schedsim not built yet"); return 2 }
func replaySched(rep *Replay, kf *KnownFindings) int { infra("schedsim not built yet"); return 2 }
func genSchedPlan(seed uint64, run int) Plan         { return Plan{} }
