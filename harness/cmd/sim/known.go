package main

import (
	"encoding/json"
	"fmt"
	"os"
	"regexp"
	"sort"
)

// Known findings: /verif/known_findings.json, committed, never written at run time.
// A "known" entry tolerates an oracle failure whose witness satisfies its predicate, at that event
// only; "fixed" entries are documentation and suppress nothing.

type KFMatch struct {
	Key   string `json:"key"`   // witness key
	Regex string `json:"regex"` // must match witness[key]
	re    *regexp.Regexp
}

type KFEntry struct {
	ID       string    `json:"id"`
	Property string    `json:"property"`
	Clause   string    `json:"clause,omitempty"`
	Status   string    `json:"status"` // known | fixed
	Match    []KFMatch `json:"match,omitempty"`
	What     string    `json:"what"`
	Commit   string    `json:"commit,omitempty"`
	Example  string    `json:"example,omitempty"`
}

type KnownFindings struct {
	Entries []KFEntry
}

func loadKnown(path string) (*KnownFindings, error) {
	kf := &KnownFindings{}
	data, err := os.ReadFile(path)
	if err != nil {
		return nil, err
	}
	if err := json.Unmarshal(data, &kf.Entries); err != nil {
		return nil, fmt.Errorf("%s: %v", path, err)
	}
	for i := range kf.Entries {
		e := &kf.Entries[i]
		if e.Status == "known" && (e.Clause == "" || len(e.Match) == 0) {
			return nil, fmt.Errorf("%s: known entry %s needs a clause and a match predicate", path, e.ID)
		}
		for j := range e.Match {
			re, err := regexp.Compile(e.Match[j].Regex)
			if err != nil {
				return nil, fmt.Errorf("%s: entry %s: %v", path, e.ID, err)
			}
			e.Match[j].re = re
		}
	}
	return kf, nil
}

// Match returns the id of the known entry that lists this failure, or "".
func (kf *KnownFindings) Match(prop string, f Failure) string {
	if kf == nil {
		return ""
	}
	for i := range kf.Entries {
		e := &kf.Entries[i]
		if e.Status != "known" || e.Property != prop || e.Clause != f.Clause {
			continue
		}
		ok := true
		for _, m := range e.Match {
			v, has := f.Witness[m.Key]
			if !has || !m.re.MatchString(v) {
				ok = false
				break
			}
		}
		if ok {
			return e.ID
		}
	}
	return ""
}

func (kf *KnownFindings) What(id string) string {
	for _, e := range kf.Entries {
		if e.ID == id {
			return e.What
		}
	}
	return id
}

func sortedKeys(m map[string]int) []string {
	var ks []string
	for k := range m {
		ks = append(ks, k)
	}
	sort.Strings(ks)
	return ks
}
