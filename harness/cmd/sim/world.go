package main

import (
	"fmt"
	"os"
	"runtime/debug"
	"sort"
	"strconv"
	"strings"
	"sync"
	"sync/atomic"
	"syscall"
	"time"

	"github.com/nlnwa/whatwg-url/errors"
	"github.com/nlnwa/whatwg-url/url"
	rt "github.com/nlnwa/whatwg-url/verifrt"

	"verif/harness/model"
)

// worldsim: op-granular multi-party histories on a shared object graph. The plan is explicit;
// execution draws no random numbers.

type UH struct {
	ID    int
	Cfg   Config // configuration of the parser this URL belongs to (its special-scheme table judges it)
	U     *url.Url
	Prov  string // parsed | resolved | cloned | new
	From  int    // base / source handle id, -1 if none
	QW    int    // last writer of the query: 0 text (parse, resolve, SetSearch), 1 list (parameter mutation), 2 nobody: a kept pair was written to from outside
	SPs   []int  // parameter handles taken from this URL, oldest first
	M     *model.URL
	MDead bool // the model cannot judge this URL any more (IDNA) or has already disagreed
	Twin  *UH  // C13.reflects twin
}

type SH struct {
	ID int
	SP *url.SearchParams
	Of int
	M  []Pair // C11 list model
	// Snap: made by SearchParams.Clone as a snapshot (not expected to follow the URL)
	Snap bool
	// Kept: pairs a callback of Iterate kept a pointer to (C12: written to later, from outside any call)
	Kept []*url.NameValuePair
}

type Event struct {
	I        int
	Op       Op
	Skipped  bool
	Target   int // URL mutated, -1
	TargetS  int // parameter handle used, -1
	Created  int // URL created, -1
	CreatedS int
	Read     int // URL only read (base, clone source, observed), -1
	Err      string
	Panic    string // signature: top library frame
	PanicMsg string
	Hang     bool
	Blocked  bool   // Hang, and not by the statement budget: the call blocked (see World.guarded)
	BlockedIn string
	Contract string // C02 contract breach description
	Steps    int64
	Mut      bool
	Val      string // set: the value actually passed (resolved from Op.V)
	Result   string // what a plan-level read returned (compared between the observed and the unobserved run)
}

type World struct {
	Cfg         Config
	P           url.Parser // nil => package-level functions (the default parser)
	Cfg2        *Config
	guard       bool // run library calls on a helper goroutine and detect blocking (C02)
	listBytes   int  // bytes held by all parameter lists alive in the world (part of every statement budget)
	// Ent: URLs that share one parameter list because the caller asked for it
	// (u.SetSearchParams(v.SearchParams())): URL id -> group. Isolation is not asked within a group.
	Ent map[int]int
	P2          url.Parser // second parser (cross-parser resolution), nil if the plan has none
	U           map[int]*UH
	S           map[int]*SH
	Cur         map[int]Obs
	Prev        map[int]Obs
	CurL        map[int][]Pair
	PrevL       map[int][]Pair
	step        int
	quiet       bool     // unobserved twin run: exec only
	results     []string // per executed (non-skipped) operation: what it returned (plan-level reads, error types)
	limits      []int64  // statement budget per operation index (recorded by the observed world, reused by the unobserved one)
	wantVE      bool     // C13: the content of ValidationErrors() is part of the isolation observation
	touchErrors bool     // C02: exercise the error API on every returned error
	sched       bool     // schedsim: several worlds run on different goroutines; do not touch verifrt's global counters
}

func newWorld(cfg Config) *World {
	w := &World{Cfg: cfg, U: map[int]*UH{}, S: map[int]*SH{}, Cur: map[int]Obs{}, Prev: map[int]Obs{}, CurL: map[int][]Pair{}, PrevL: map[int][]Pair{}}
	if cfg.Profile != "" || len(cfg.Opts) > 0 {
		w.P = buildParser(cfg)
	}
	return w
}

func (w *World) uids() []int {
	ids := make([]int, 0, len(w.U))
	for id := range w.U {
		ids = append(ids, id)
	}
	sort.Ints(ids)
	return ids
}

func (w *World) sids() []int {
	ids := make([]int, 0, len(w.S))
	for id := range w.S {
		ids = append(ids, id)
	}
	sort.Ints(ids)
	return ids
}

func (w *World) parse(in string) (*url.Url, error) {
	if w.P == nil {
		return url.Parse(in)
	}
	return w.P.Parse(in)
}

func (w *World) parseRef(base, ref string) (*url.Url, error) {
	if w.P == nil {
		return url.ParseRef(base, ref)
	}
	return w.P.ParseRef(base, ref)
}

// libFrame extracts the top library frame (pkg/file.go:line) from a stack trace.
func libFrame(stack string) string {
	for _, l := range strings.Split(stack, "\n") {
		l = strings.TrimSpace(l)
		i := strings.Index(l, "whatwg-url")
		if i < 0 || !strings.Contains(l, ".go:") || strings.Contains(l, "/verifrt/") {
			continue
		}
		p := l[i+len("whatwg-url"):]
		if j := strings.Index(p, "/"); j >= 0 { // skip optional @version
			p = p[j+1:]
		}
		if j := strings.Index(p, " "); j >= 0 {
			p = p[:j]
		}
		return p
	}
	return "outside-library"
}

func stepLimit(l int) int64 {
	L := int64(l)
	return 1_000_000 + 1000*L + 5*L*L
}

// touchError exercises the whole public error API on a returned error (C02: it must not panic).
func touchError(err error) {
	if err == nil {
		return
	}
	_ = err.Error()
	_ = errors.Type(err)
	_ = errors.Description(err)
	_ = errors.Url(err)
	_ = errors.Failure(err)
	if u, ok := err.(interface{ Unwrap() error }); ok {
		if c := u.Unwrap(); c != nil {
			_ = c.Error()
		}
	}
}

func errType(err error) string {
	if err == nil {
		return ""
	}
	t := string(errors.Type(err))
	if t == "" {
		t = "untyped:" + err.Error()
	}
	return t
}

func applySetter(u *url.Url, which int, v string) {
	switch which {
	case 0:
		u.SetProtocol(v)
	case 1:
		u.SetUsername(v)
	case 2:
		u.SetPassword(v)
	case 3:
		u.SetHost(v)
	case 4:
		u.SetHostname(v)
	case 5:
		u.SetPort(v)
	case 6:
		u.SetPathname(v)
	case 7:
		u.SetSearch(v)
	case 8:
		u.SetHash(v)
	}
}

// getterFor returns the current getter value that corresponds to setter `which`.
func getterFor(u *url.Url, which int) string {
	switch which {
	case 0:
		return u.Protocol()
	case 1:
		return u.Username()
	case 2:
		return u.Password()
	case 3:
		return u.Host()
	case 4:
		return u.Hostname()
	case 5:
		return u.Port()
	case 6:
		return u.Pathname()
	case 7:
		return u.Search()
	default:
		return u.Hash()
	}
}

var modelSetterNames = []string{"protocol", "username", "password", "host", "hostname", "port", "pathname", "search", "hash"}

func readGetters(u *url.Url, mask int) {
	if mask == 0 {
		mask = 0xfffff
	}
	g := []func(){
		func() { _ = u.Href(false) }, func() { _ = u.Href(true) }, func() { _ = u.String() }, func() { _ = u.Protocol() },
		func() { _ = u.Scheme() }, func() { _ = u.Username() }, func() { _ = u.Password() }, func() { _ = u.Host() },
		func() { _ = u.Hostname() }, func() { _ = u.Port() }, func() { _ = u.DecodedPort() }, func() { _ = u.Pathname() },
		func() { _ = u.OpaquePath() }, func() { _ = u.Search() }, func() { _ = u.Query() }, func() { _ = u.Hash() },
		func() { _ = u.Fragment() }, func() { _ = u.IsIPv4() }, func() { _ = u.IsIPv6() }, func() { _ = u.IsSpecialScheme() },
		func() { _ = u.ValidationErrors() },
	}
	for i, f := range g {
		if mask&(1<<uint(i%20)) != 0 {
			f()
		}
	}
}

// blockPatience: a guarded call that has not returned, has executed no instrumented statement and
// has used (almost) no CPU for this long is blocked (VERIF_BLOCK_MS overrides; shorter while
// shrinking a blocked plan).
var blockPatience = 10 * time.Second

func init() {
	if v := os.Getenv("VERIF_BLOCK_MS"); v != "" {
		if n, err := strconv.Atoi(v); err == nil && n > 0 {
			blockPatience = time.Duration(n) * time.Millisecond
		}
	}
}

func cpuTime() time.Duration {
	var ru syscall.Rusage
	if syscall.Getrusage(syscall.RUSAGE_SELF, &ru) != nil {
		return 0
	}
	return time.Duration(ru.Utime.Nano() + ru.Stime.Nano())
}

// guarded runs f on its own goroutine and tells whether it blocked. worldsim is single-threaded:
// if the goroutine that runs a library call is waiting for something, nobody exists who could
// provide it - the call will never return (a lock taken twice, a lock held across a callback that
// re-enters). The step budget cannot see that (no statement is executed), a clock can: no
// instrumented statement for blockPatience AND no CPU used meanwhile (a long computation inside a
// single statement, e.g. in a dependency, burns CPU and is left to the budget and the driver's
// watchdog). The goroutine is abandoned; the run ends there.
func (w *World) guarded(f func()) (blocked bool) {
	if !w.guard {
		f()
		return false
	}
	gOnce.Do(func() { go guardWatchdog() })
	if gWork == nil {
		// a persistent helper goroutine runs the calls (its stack stays grown); one that blocks is
		// abandoned and replaced
		gWork, gDone = make(chan func()), make(chan struct{})
		go func(work chan func(), done chan struct{}) {
			for f := range work {
				f()
				done <- struct{}{}
			}
		}(gWork, gDone)
	}
	gCounter++
	seq := gCounter
	atomic.StoreInt64(&gSeq, seq)
	gWork <- f
	for {
		select {
		case <-gDone:
			atomic.StoreInt64(&gSeq, 0)
			return false
		case s := <-gBlocked:
			if s == seq {
				atomic.StoreInt64(&gSeq, 0)
				gWork, gDone = nil, nil
				return true
			}
		}
	}
}

var (
	gOnce    sync.Once
	gWork    chan func()
	gDone    chan struct{}
	gCounter int64
	gSeq     int64 // the guarded call in flight (0: none); read by the watchdog
	gBlocked = make(chan int64, 1)
)

// guardWatchdog: one per process; no timers on the calling path.
func guardWatchdog() {
	const tick = 50 * time.Millisecond
	var seq0, cnt0 int64
	var stalled time.Duration
	cpu0 := cpuTime()
	for {
		time.Sleep(tick)
		seq, cnt := atomic.LoadInt64(&gSeq), atomic.LoadInt64(&rt.Count)
		if seq == 0 || seq != seq0 || cnt != cnt0 {
			seq0, cnt0, stalled, cpu0 = seq, cnt, 0, cpuTime()
			continue
		}
		stalled += tick
		if stalled >= blockPatience {
			if cpuTime()-cpu0 < blockPatience/10 {
				select {
				case gBlocked <- seq:
				default:
				}
			}
			stalled, cpu0 = 0, cpuTime() // (else: busy inside one statement, not blocked)
		}
	}
}

// exec performs one operation against the real library. It never panics and, in guarded worlds,
// never blocks.
func (w *World) exec(i int, op Op) (ev Event) {
	if w.guarded(func() { ev = w.execInline(i, op) }) {
		return Event{I: i, Op: op, Target: -1, TargetS: -1, Created: -1, CreatedS: -1, Read: -1, Hang: true, Blocked: true}
	}
	return ev
}

func (w *World) execInline(i int, op Op) (ev Event) {
	ev = Event{I: i, Op: op, Target: -1, TargetS: -1, Created: -1, CreatedS: -1, Read: -1}
	argLen := len(op.A) + len(op.B)
	if uh := w.U[op.H]; uh != nil && !strings.HasPrefix(op.K, "sp.") {
		argLen += len(w.Cur[op.H].Href)
	}
	if strings.HasPrefix(op.K, "sp.") {
		if sh := w.S[op.H]; sh != nil {
			argLen += len(w.Cur[sh.Of].Href)
		}
	}
	// What an operation may have to walk is not only its arguments and the serialization of its
	// target: a parameter list can hold far more than the query of the URL it belongs to (a list
	// that was replaced through SetSearchParams keeps its pairs; an adopted list is another URL's).
	// All pairs alive in the world count.
	argLen += w.listBytes
	if op.V != "" {
		// the argument is taken from another object at execution time (a peer's getter value or
		// serialization): it is at most that object's serialization long
		argLen += len(w.Cur[op.S].Href)
	}
	if !w.sched {
		rt.Count = 0
		rt.Limit = stepLimit(argLen)
		if w.quiet {
			// no reads in the unobserved world: take the budget the observed world computed for the
			// same operation (it knew the length of the current serialization), with slack
			rt.Limit = 0
			if i < len(w.limits) {
				rt.Limit = 4 * w.limits[i]
			}
		} else {
			w.limits = append(w.limits, rt.Limit)
		}
	}
	defer func() {
		if !w.sched {
			ev.Steps = rt.Count
			rt.Limit = 0
		}
		if e := recover(); e != nil {
			if _, ok := e.(rt.StepLimit); ok {
				ev.Hang = true
				return
			}
			ev.Panic = libFrame(string(debug.Stack()))
			ev.PanicMsg = fmt.Sprint(e)
		}
	}()
	ownerCfg := w.Cfg
	mkURL := func(u *url.Url, err error, prov string, from int) {
		ev.Err = errType(err)
		if w.touchErrors {
			touchError(err)
		}
		if err != nil {
			return
		}
		if u == nil {
			ev.Contract = "nil error and nil URL"
			return
		}
		nu := &UH{ID: op.D, U: u, Prov: prov, From: from, Cfg: ownerCfg}
		if from >= 0 && prov == "cloned" {
			nu.QW = w.U[from].QW
		}
		w.U[op.D] = nu
		ev.Created = op.D
	}
	switch op.K {
	case "parse":
		if _, dup := w.U[op.D]; dup {
			ev.Skipped = true
			return
		}
		if op.W == 2 {
			// the other public way to parse: into a blank URL through the Parser interface
			p := w.P
			if p == nil {
				p = url.NewParser()
			}
			blank := p.NewUrl()
			u, err := p.BasicParser(string(op.A), nil, blank, url.NoState)
			mkURL(u, err, "parsed", -1)
		} else if op.W == 0 {
			u, err := w.parse(string(op.A))
			mkURL(u, err, "parsed", -1)
		} else {
			u, err := w.parseRef(string(op.B), string(op.A))
			mkURL(u, err, "parsed", -1)
		}
	case "resolve", "resolvediscard":
		b := w.U[op.H]
		if b == nil || (op.K == "resolve" && w.U[op.D] != nil) {
			ev.Skipped = true
			return
		}
		ev.Read = op.H
		var u *url.Url
		var err error
		ref := string(op.A)
		if op.V == "peerhref" {
			if ph := w.U[op.S]; ph != nil {
				ref = ph.U.Href(false) + ref
			}
		}
		ev.Val = ref
		switch {
		case op.W == 1:
			u, err = w.parseRef(b.U.Href(false), ref)
		case op.W == 2 && w.P != nil:
			u, err = w.P.BasicParser(ref, b.U, nil, url.NoState)
		case op.W == 3 && w.P2 != nil:
			// the other parser resolves against a base it did not make; the result is that parser's
			other, otherCfg := w.P2, *w.Cfg2
			if b.Cfg.String() == w.Cfg2.String() && op.V == "fwd" {
				// one direction only: the second parser derives from the first one's URLs, never the first
				// from a state only the second can make
				ev.Skipped = true
				return
			}
			if b.Cfg.String() == w.Cfg2.String() {
				other, otherCfg = w.P, w.Cfg
				if other == nil {
					other = url.NewParser()
				}
			}
			ownerCfg = otherCfg
			u, err = other.BasicParser(ref, b.U, nil, url.NoState)
		default:
			ownerCfg = b.Cfg // (*Url).Parse uses the base's own parser
			u, err = b.U.Parse(ref)
		}
		if op.K == "resolve" {
			from := op.H
			if op.W == 1 {
				from = -1 // derived from a re-parsed copy of the base, not from the base object
			}
			mkURL(u, err, "resolved", from)
		} else {
			ev.Err = errType(err)
			if err == nil && u == nil {
				ev.Contract = "nil error and nil URL"
			}
		}
	case "clone", "clonediscard":
		s := w.U[op.H]
		if s == nil || (op.K == "clone" && w.U[op.D] != nil) {
			ev.Skipped = true
			return
		}
		ev.Read = op.H
		c := s.U.Clone()
		ownerCfg = s.Cfg
		if op.K == "clone" {
			mkURL(c, nil, "cloned", op.H)
		}
	case "newurl":
		if w.U[op.D] != nil {
			ev.Skipped = true
			return
		}
		p := w.P
		if p == nil {
			p = url.NewParser()
		}
		mkURL(p.NewUrl(), nil, "new", -1)
	case "set":
		uh := w.U[op.H]
		if uh == nil {
			ev.Skipped = true
			return
		}
		ev.Target, ev.Mut = op.H, true
		if op.W%9 == 7 {
			uh.QW = 0
		}
		ev.Val = string(op.A)
		switch op.V {
		case "own":
			ev.Val = getterFor(uh.U, op.W%9) + string(op.A)
		case "peer":
			if ph := w.U[op.S]; ph != nil {
				ev.Val = getterFor(ph.U, op.W%9) + string(op.A)
			}
		}
		if op.W%9 < 6 && len(ev.Val) > 100_000 {
			// scheme, credentials, host, port: the library's handling of very long values there is
			// quadratic (C20's business); never hand them one, wherever the value came from
			ev.Skipped, ev.Target, ev.Mut = true, -1, false
			return
		}
		applySetter(uh.U, op.W%9, ev.Val)
	case "getsp":
		uh := w.U[op.H]
		if uh == nil || w.S[op.D] != nil {
			ev.Skipped = true
			return
		}
		ev.Read = op.H
		sp := uh.U.SearchParams()
		if sp == nil {
			ev.Contract = "SearchParams() returned nil"
			return
		}
		w.S[op.D] = &SH{ID: op.D, SP: sp, Of: op.H}
		uh.SPs = append(uh.SPs, op.D)
		ev.CreatedS = op.D
	case "sp.append", "sp.delete", "sp.set", "sp.sort", "sp.sortabs", "sp.iter":
		sh := w.S[op.H]
		if sh == nil {
			ev.Skipped = true
			return
		}
		ev.TargetS, ev.Target, ev.Mut = op.H, sh.Of, true
		if uh := w.U[sh.Of]; uh != nil {
			uh.QW = 1
		}
		switch op.K {
		case "sp.append":
			sh.SP.Append(string(op.A), string(op.B))
		case "sp.delete":
			sh.SP.Delete(string(op.A))
		case "sp.set":
			sh.SP.Set(string(op.A), string(op.B))
		case "sp.sort":
			sh.SP.Sort()
		case "sp.sortabs":
			sh.SP.SortAbsolute()
		case "sp.iter":
			a, b := string(op.A), string(op.B)
			sh.Kept = nil // the pairs of the most recent walk
			sh.SP.Iterate(func(p *url.NameValuePair) {
				if len(sh.Kept) < 4 {
					sh.Kept = append(sh.Kept, p)
				}
				switch op.W {
				case 1:
					if p.Name == a {
						p.Value = b
					}
				case 2:
					p.Name += a
				// 3..8 (C02): the callback reads from the list it is iterating or from the URL that owns
				// it - what a caller does to spot duplicates, resolve a value, log progress
				case 3:
					_ = sh.SP.Has(p.Name)
					_ = sh.SP.Get(p.Name)
				case 4:
					_ = sh.SP.String()
				case 5:
					if uh := w.U[sh.Of]; uh != nil {
						_ = uh.U.Href(false)
						_ = uh.U.Search()
					}
				case 6:
					if uh := w.U[sh.Of]; uh != nil {
						_ = uh.U.Clone()
					}
				case 7:
					if uh := w.U[sh.Of]; uh != nil {
						_, _ = uh.U.Parse(p.Value)
					}
				case 8:
					_ = sh.SP.GetAll(p.Name)
				}
			})
		}
	case "sp.poke":
		// C12: NameValuePair is an exported struct and Iterate hands out pointers; a caller that kept
		// one writes to it after Iterate has returned. Nothing can be promised about the query until
		// the next list operation (the library was not called), but then it must be back in step.
		sh := w.S[op.H]
		if sh == nil || len(sh.Kept) == 0 {
			ev.Skipped = true
			return
		}
		ev.TargetS, ev.Target, ev.Mut = op.H, sh.Of, true
		p := sh.Kept[op.W%len(sh.Kept)]
		if op.B != "" {
			p.Name += string(op.B)
		} else {
			p.Value += string(op.A)
		}
		if uh := w.U[sh.Of]; uh != nil {
			uh.QW = 2
		}
	case "sp.clone":
		// C02 only: the public SearchParams.Clone (a second list attached to the same URL)
		sh := w.S[op.H]
		if sh == nil || w.S[op.D] != nil {
			ev.Skipped = true
			return
		}
		ev.TargetS = op.H
		c := sh.SP.Clone()
		if c == nil {
			ev.Contract = "SearchParams.Clone() returned nil"
			return
		}
		w.S[op.D] = &SH{ID: op.D, SP: c, Of: sh.Of, Snap: op.W == 1}
		if uh := w.U[sh.Of]; uh != nil && op.W != 1 {
			// W=1: a snapshot, kept apart from the handles that are expected to follow the URL
			uh.SPs = append(uh.SPs, op.D)
		}
		ev.CreatedS = op.D
	case "sp.get", "sp.getall", "sp.has", "sp.string", "sp.escape":
		sh := w.S[op.H]
		if sh == nil {
			ev.Skipped = true
			return
		}
		ev.TargetS = op.H
		switch op.K {
		case "sp.escape":
			var sb strings.Builder
			sh.SP.QueryEscape(string(op.A), &sb)
			ev.Result = sb.String()
		case "sp.get":
			ev.Result = "get=" + sh.SP.Get(string(op.A))
		case "sp.getall":
			ev.Result = "getall=" + strings.Join(sh.SP.GetAll(string(op.A)), "\x01")
		case "sp.has":
			ev.Result = "has=" + strconv.FormatBool(sh.SP.Has(string(op.A)))
		case "sp.string":
			ev.Result = "string=" + sh.SP.String()
		}
	case "obs":
		uh := w.U[op.H]
		if uh == nil {
			ev.Skipped = true
			return
		}
		ev.Read = op.H
		readGetters(uh.U, op.W)
	case "setsp":
		uh, sh := w.U[op.H], w.S[op.W]
		if uh == nil || sh == nil {
			ev.Skipped = true
			return
		}
		if op.V == "own" && sh.Of != op.H {
			ev.Skipped = true // only lists that belong to this very URL (its handles and snapshots of them)
			return
		}
		ev.Target, ev.Mut = op.H, true
		uh.U.SetSearchParams(sh.SP)
		if sh.Of != op.H {
			if w.Ent == nil {
				w.Ent = map[int]int{}
			}
			g := w.Ent[sh.Of]
			if g == 0 {
				g = w.Ent[op.H]
			}
			if g == 0 {
				g = len(w.Ent) + 1
			}
			if old := w.Ent[op.H]; old != 0 && old != g {
				for id, x := range w.Ent {
					if x == old {
						w.Ent[id] = g
					}
				}
			}
			w.Ent[op.H], w.Ent[sh.Of] = g, g
		}
		if op.D != 0 {
			// What SetSearchParams does with the handles a caller still holds (the replaced list, the
			// list handed in) is nobody's promise: they are forgotten. The URL's list is from now on
			// whatever SearchParams() returns.
			if w.S[op.D] != nil {
				return
			}
			for _, sid := range uh.SPs {
				delete(w.S, sid)
			}
			if sh.Of == op.H {
				delete(w.S, op.W)
			}
			uh.SPs = nil
			sp := uh.U.SearchParams()
			if sp == nil {
				ev.Contract = "SearchParams() returned nil"
				return
			}
			w.S[op.D] = &SH{ID: op.D, SP: sp, Of: op.H}
			uh.SPs = []int{op.D}
			uh.QW = 1
			ev.CreatedS = op.D
		}
	case "pes":
		p := w.P
		if p == nil {
			p = url.NewParser()
		}
		sets := setMenu()
		_ = p.PercentEncodeString(string(op.A), sets[op.W%len(sets)])
	case "canon":
		uh := w.U[op.H]
		c, ok := w.P.(interface {
			Canonicalize(*url.Url) (*url.Url, error)
		})
		if uh == nil || !ok {
			ev.Skipped = true
			return
		}
		ev.Target, ev.Mut = op.H, true
		r, err := c.Canonicalize(uh.U)
		ev.Err = errType(err)
		if err == nil && r == nil {
			ev.Contract = "Canonicalize returned nil, nil"
		}
	default:
		ev.Skipped = true
	}
	return
}

// refresh re-reads every observation (Prev <- Cur, Cur <- now). A panic inside a getter is
// returned as its library frame.
func (w *World) refresh() (panicked string) {
	defer func() {
		if e := recover(); e != nil {
			panicked = libFrame(string(debug.Stack())) + ": " + fmt.Sprint(e)
		}
	}()
	w.Prev, w.PrevL = w.Cur, w.CurL
	w.Cur, w.CurL = make(map[int]Obs, len(w.U)), make(map[int][]Pair, len(w.S))
	for id, uh := range w.U {
		o := observe(uh.U)
		if w.wantVE {
			o.VE = veDigest(uh.U)
		}
		w.Cur[id] = o
	}
	w.listBytes = 0
	for id, sh := range w.S {
		// one public read first: an implementation is free to synchronise the list lazily on access,
		// and only what public methods show counts; the reflection read then sees what they see
		l := readListSynced(sh.SP)
		w.CurL[id] = l
		for _, p := range l {
			w.listBytes += len(p.Name) + len(p.Value) + 2
		}
	}
	return ""
}

// unobservedRun executes the plan on a fresh world without any reads in between and compares the
// final observations with those of the observed world w.
func unobservedRun(plan *Plan, w *World, chk Checker) *Failure {
	b := newWorld(plan.Cfg)
	b.Cfg2, b.P2 = w.Cfg2, w.P2
	b.quiet = true
	b.guard = w.guard
	b.limits = w.limits
	_, isC02 := chk.(*c02Checker)
	k := 0
	for i, op := range plan.Ops {
		ev := b.exec(i, op)
		if !ev.Skipped && ev.Panic == "" && !ev.Hang {
			if r := ev.Result + "|" + ev.Err; k < len(w.results) && w.results[k] != r {
				f := fail(plan.Prop+".unobserved-run-differs", "operation", fmt.Sprintf("%d: %s", i, op.String()), "returned-with-reads-between-operations", q(w.results[k]), "without", q(r))
				return &f
			}
			k++
		}
		if ev.Panic != "" || ev.Hang {
			if isC02 {
				f := fail("C02.panic", "op", op.String(), "config", b.Cfg.String(), "frame", ev.Panic, "msg", ev.PanicMsg, "where", "only when no getter is read between the operations")
				if ev.Hang {
					f = fail("C02.hang", "op", op.String(), "config", b.Cfg.String(), "where", "only when no getter is read between the operations")
				}
				return &f
			}
			return nil
		}
	}
	if p := b.refresh(); p != "" {
		return nil
	}
	for _, id := range w.uids() {
		bo, ok := b.Cur[id]
		if !ok {
			f := fail(plan.Prop+".unobserved-run-differs", "object", fmt.Sprintf("u%d", id), "why", "exists only when the oracle reads between operations")
			return &f
		}
		ao := w.Cur[id]
		if ao.Key() != bo.Key() {
			fld, x, y := diffPrimary(ao.Primary(), bo.Primary())
			if fld == "" {
				fld, x, y = "derived accessors", ao.Key(), bo.Key()
			}
			f := fail(plan.Prop+".unobserved-run-differs", "object", fmt.Sprintf("u%d", id), "field", fld, "with-reads-between-operations", q(x), "without", q(y))
			return &f
		}
	}
	for _, id := range w.sids() {
		if bl, ok := b.CurL[id]; ok && !pairsExact(bl, w.CurL[id]) {
			f := fail(plan.Prop+".unobserved-run-differs", "object", fmt.Sprintf("s%d", id), "with-reads-between-operations", pairsString(w.CurL[id]), "without", pairsString(bl))
			return &f
		}
	}
	return nil
}

// Failure is one oracle clause that fired.
type Failure struct {
	Clause  string
	Witness map[string]string
}

func fail(clause string, kv ...string) Failure {
	f := Failure{Clause: clause, Witness: map[string]string{}}
	for i := 0; i+1 < len(kv); i += 2 {
		f.Witness[kv[i]] = kv[i+1]
	}
	return f
}

// Checker evaluates one property's clauses after every event over the whole world.
type Checker interface {
	After(w *World, ev *Event) []Failure
}

type Violation struct {
	Clause  string
	Step    int
	Witness map[string]string
}

type RunResult struct {
	Viol      *Violation
	Events    int
	Skipped   int
	Hash      uint64
	NonTriv   bool
	Aborted   string // run ended early for a reason that is not this property's business
	Truncated bool   // model could not judge (IDNA) from some point on
	Steps     int64
	Faults    map[string]int
	Known     map[string]int
	Exempt    int
	Log       []string
}

type hasher struct{ h uint64 }

func newHasher() *hasher { return &hasher{14695981039346656037} }
func (h *hasher) add(s string) {
	for i := 0; i < len(s); i++ {
		h.h ^= uint64(s[i])
		h.h *= 1099511628211
	}
	h.h ^= 0xff
	h.h *= 1099511628211
}

// runWorld executes a plan under one property's checker. keepLog renders the event log.
func runWorld(plan *Plan, mk func() Checker, kf *KnownFindings, keepLog bool) (res RunResult) {
	res.Faults = map[string]int{}
	res.Known = map[string]int{}
	prevMode := rt.Mode
	rt.Mode = 1
	defer func() { rt.Mode = prevMode }()
	w := newWorld(plan.Cfg)
	if plan.Cfg2 != nil {
		w.Cfg2 = plan.Cfg2
		w.P2 = buildParser(*plan.Cfg2)
		if plan.Cfg2.Profile == "" && len(plan.Cfg2.Opts) == 0 {
			w.P2 = url.NewParser()
		}
	}
	chk := mk()
	if _, ok := chk.(*c02Checker); ok {
		w.touchErrors = true
		w.guard = true
	}
	if _, ok := chk.(*c13Checker); ok {
		w.wantVE = true
	}
	if plan.Cfg.Profile != "" || len(plan.Cfg.Opts) > 0 {
		res.Faults["config(non-default parser options / profile)"]++
	}
	h := newHasher()
	for i, op := range plan.Ops {
		w.step = i
		ev := w.exec(i, op)
		res.Steps += ev.Steps
		if ev.Skipped {
			res.Skipped++
			h.add("skip")
			if keepLog {
				res.Log = append(res.Log, fmt.Sprintf("%3d  %-60s skipped", i, op.String()))
			}
			continue
		}
		res.Events++
		if op.F != "" {
			res.Faults[op.F]++
		}
		w.results = append(w.results, ev.Result+"|"+ev.Err)
		if ev.Err != "" || (ev.Mut && op.K == "set") {
			// abort fault fired if the op failed, or if a setter left the target unchanged/partially changed;
			// counted below once observations are refreshed
		}
		gp := ""
		if ev.Panic == "" && !ev.Hang {
			if w.guarded(func() { gp = w.refresh() }) {
				ev.Hang, ev.Blocked, gp = true, true, ""
				ev.Contract = ""
				ev.BlockedIn = "a getter after the operation"
			}
		}
		if ev.Panic != "" || ev.Hang || gp != "" || ev.Contract != "" {
			// totality is C02's business; every other check just stops the run here
			if c2, ok := chk.(*c02Checker); ok {
				fs := c2.Totality(w, &ev, gp)
				if v := triage(fs, kf, plan.Prop, &res, i); v != nil {
					res.Viol = v
				}
			} else {
				res.Aborted = "totality:" + ev.Panic + gp
				if ev.Hang {
					res.Aborted = "totality:hang"
				}
			}
			if keepLog {
				res.Log = append(res.Log, fmt.Sprintf("%3d  %-60s PANIC/HANG %s %s %s", i, op.String(), ev.Panic, ev.PanicMsg, gp))
			}
			h.add("abort")
			break
		}
		// fault accounting: an operation that failed or had no observable effect on its target
		if ev.Err != "" {
			res.Faults["abort(error)"]++
		}
		changed := false
		if ev.Target >= 0 {
			if w.Prev[ev.Target].Key() != w.Cur[ev.Target].Key() {
				changed = true
			}
			for _, sid := range w.U[ev.Target].SPs {
				if !pairsEqual(w.PrevL[sid], w.CurL[sid]) || len(w.PrevL[sid]) != len(w.CurL[sid]) {
					changed = true
				}
			}
			if !changed && op.K == "set" {
				res.Faults["abort(setter rejected)"]++
			}
		}
		if changed || ev.Created >= 0 && i > 0 {
			res.NonTriv = true
		}
		h.add(op.K)
		h.add(ev.Err)
		for _, id := range w.uids() {
			h.add(w.Cur[id].Key())
		}
		for _, id := range w.sids() {
			h.add(pairsString(w.CurL[id]))
		}
		if keepLog {
			line := fmt.Sprintf("%3d  %-60s", i, op.String())
			if ev.Err != "" {
				line += " err=" + ev.Err
			}
			if op.V != "" {
				line += " value=" + q(ev.Val)
			}
			if ev.Target >= 0 {
				line += " -> " + q(w.Cur[ev.Target].Href)
			} else if ev.Created >= 0 {
				line += " => " + q(w.Cur[ev.Created].Href)
			}
			line += fmt.Sprintf(" [%d stmts]", ev.Steps)
			res.Log = append(res.Log, line)
		}
		var fs []Failure
		var cp string
		if w.guarded(func() {
			defer func() {
				if e := recover(); e != nil {
					cp = libFrame(string(debug.Stack())) + ": " + fmt.Sprint(e)
				}
			}()
			fs = chk.After(w, &ev)
		}) {
			ev.Hang, ev.Blocked, ev.BlockedIn = true, true, "a read accessor after the operation"
			if c2, ok := chk.(*c02Checker); ok {
				if v := triage(c2.Totality(w, &ev, ""), kf, plan.Prop, &res, i); v != nil {
					res.Viol = v
				}
			}
			h.add("abort")
			break
		}
		if cp != "" {
			if _, ok := chk.(*c02Checker); ok {
				fs = append(fs, fail("C02.panic", "frame", strings.SplitN(cp, ": ", 2)[0], "msg", cp, "where", "oracle read"))
			} else {
				res.Aborted = "totality(oracle):" + cp
				break
			}
		}
		if v := triage(fs, kf, plan.Prop, &res, i); v != nil {
			res.Viol = v
			if keepLog {
				res.Log = append(res.Log, fmt.Sprintf("     VIOLATION %s %v", v.Clause, v.Witness))
			}
			break
		}
		if t, ok := chk.(interface{ Truncated() bool }); ok && t.Truncated() {
			res.Truncated = true
		}
		if ab, ok := chk.(interface{ Abort() string }); ok && ab.Abort() != "" {
			res.Aborted = ab.Abort()
		}
		if st, ok := chk.(interface{ Stop() bool }); ok && st.Stop() {
			break
		}
	}
	if e, ok := chk.(interface{ Exempt() int }); ok {
		res.Exempt = e.Exempt()
	}
	// ---- the unobserved twin run ("observe" fault in its strongest form): the oracles above read
	// every getter of every object (and one public read on every parameter handle) after every
	// event, which would flush any lazily maintained state and hide bugs that only bite a caller who
	// does not look in between. The same plan is therefore executed again on a fresh world with NO
	// reads between the operations; at the end both worlds must show the same observations.
	// Reads have no semantic effect in any correct implementation (lazy or not), so a difference is
	// never a false alarm.
	st, _ := chk.(interface{ Stop() bool })
	stopped := st != nil && st.Stop()
	if res.Viol == nil && res.Aborted == "" && !stopped && len(plan.Ops) > 1 {
		if f := unobservedRun(plan, w, chk); f != nil {
			if v := triage([]Failure{*f}, kf, plan.Prop, &res, len(plan.Ops)-1); v != nil {
				res.Viol = v
				if keepLog {
					res.Log = append(res.Log, fmt.Sprintf("     VIOLATION %s %v", v.Clause, v.Witness))
				}
			}
		}
		res.Faults["observe(whole run re-executed without any oracle reads)"]++
	}
	res.Hash = h.h
	return
}

// triage separates listed known findings (tolerated at this event only, counted) from violations.
func triage(fs []Failure, kf *KnownFindings, prop string, res *RunResult, step int) *Violation {
	for _, f := range fs {
		if id := kf.Match(prop, f); id != "" {
			res.Known[id]++
			continue
		}
		return &Violation{Clause: f.Clause, Step: step, Witness: f.Witness}
	}
	return nil
}
