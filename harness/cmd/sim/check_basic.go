package main

import (
	"fmt"
	"regexp"
	"strconv"
	"strings"

	"golang.org/x/net/idna"

	"github.com/nlnwa/whatwg-url/url"

	"verif/harness/model"
)

// Constants below are taken from the URL Standard, not from the implementation.
var stdDefaultPort = map[string]int{"ftp": 21, "http": 80, "https": 443, "ws": 80, "wss": 443}
var stdSpecial = map[string]bool{"ftp": true, "file": true, "http": true, "https": true, "ws": true, "wss": true}
var schemeRe = regexp.MustCompile(`^[a-z][a-z0-9+.\-]*$`)
var v4Re = regexp.MustCompile(`^(0|[1-9][0-9]{0,2})\.(0|[1-9][0-9]{0,2})\.(0|[1-9][0-9]{0,2})\.(0|[1-9][0-9]{0,2})$`)
var v6InnerRe = regexp.MustCompile(`^[0-9a-f:]+$`)

func isCanonV4(h string) bool {
	if !v4Re.MatchString(h) {
		return false
	}
	for _, p := range strings.Split(h, ".") {
		if n, _ := strconv.Atoi(p); n > 255 {
			return false
		}
	}
	return true
}

// cfgSpecial returns the special-scheme set and the default ports that a configuration denotes:
// the standard's, unless the harness itself configured WithSpecialSchemes or the Semantic profile.
func cfgSpecial(c Config) (map[string]bool, map[string]int) {
	var m map[string]string
	if c.Profile == "Semantic" {
		m = map[string]string{"ftp": "21", "file": "", "http": "80", "https": "443", "ws": "80", "wss": "443", "gopher": "70"}
	}
	for _, o := range c.Opts {
		if o.N == "special" {
			m = specialMaps()[o.I%5]
		}
	}
	if m == nil {
		return stdSpecial, stdDefaultPort
	}
	sp, dp := map[string]bool{}, map[string]int{}
	for k, v := range m {
		sp[k] = true
		if n, err := strconv.Atoi(v); err == nil {
			dp[k] = n
		}
	}
	return sp, dp
}

// ---------------------------------------------------------------- C19

type c19Checker struct{}

func (c *c19Checker) After(w *World, ev *Event) []Failure {
	var fs []Failure
	// The configuration may carry its own notion of special schemes and default ports
	// (WithSpecialSchemes, the Semantic profile); the harness knows what it configured.
	for _, id := range w.uids() {
		o := w.Cur[id]
		special, defPort := cfgSpecial(w.U[id].Cfg) // the table of the parser the URL belongs to
		ctx := []string{"url", fmt.Sprintf("u%d", id), "href", q(o.Href), "prov", w.U[id].Prov}
		add := func(clause string, kv ...string) {
			fs = append(fs, fail(clause, append(append([]string{}, ctx...), kv...)...))
		}
		// bracketed AND the standard's serialization of an address => must be true; not bracketed =>
		// must be false; bracketed junk (reachable only under lax host parsing, e.g. %5Bfoo%5D) => no
		// demand: the statement says "a bracketed IPv6 literal", and [foo] is not one
		shape := strings.HasPrefix(o.Hostname, "[") && strings.HasSuffix(o.Hostname, "]") && len(o.Hostname) >= 2
		canon := shape && model.CanonicalIPv6(o.Hostname[1:len(o.Hostname)-1])
		if (canon && !o.V6) || (!shape && o.V6) {
			add("C19.IsIPv6", "IsIPv6", fmt.Sprint(o.V6), "hostname", q(o.Hostname))
		}
		isV4 := special[o.Scheme] && isCanonV4(o.Hostname)
		if o.V4 != isV4 {
			add("C19.IsIPv4", "IsIPv4", fmt.Sprint(o.V4), "hostname", q(o.Hostname), "scheme", o.Scheme)
		}
		want := defPort[o.Scheme]
		if o.Port != "" {
			n, err := strconv.Atoi(o.Port)
			if err == nil {
				want = n
			}
		}
		if o.DPort != want {
			add("C19.DecodedPort", "DecodedPort", fmt.Sprint(o.DPort), "want", fmt.Sprint(want), "port", q(o.Port), "scheme", o.Scheme)
		}
		if o.Scheme+":" != o.Protocol {
			add("C19.Scheme", "scheme", q(o.Scheme), "protocol", q(o.Protocol))
		}
		if !(o.Search == "?"+o.Query && o.Query != "" || (o.Search == "" && o.Query == "")) {
			add("C19.Query", "search", q(o.Search), "query", q(o.Query))
		}
		if !(o.Hash == "#"+o.Fragment && o.Fragment != "" || (o.Hash == "" && o.Fragment == "")) {
			add("C19.Fragment", "hash", q(o.Hash), "fragment", q(o.Fragment))
		}
		// shape of the serialization: after "scheme:" an authority ("//"), a list path ("/") or an opaque path
		rest := strings.TrimPrefix(o.Href, o.Protocol)
		shapeOpaque := !strings.HasPrefix(rest, "/")
		if strings.HasPrefix(o.Href, o.Protocol) && o.Opaque != shapeOpaque {
			add("C19.OpaquePath", "OpaquePath", fmt.Sprint(o.Opaque), "pathname", q(o.Pathname))
		}
		if o.Special != special[o.Scheme] {
			add("C19.IsSpecialScheme", "IsSpecialScheme", fmt.Sprint(o.Special), "scheme", o.Scheme)
		}
	}
	return fs
}

// ---------------------------------------------------------------- C04

type c04Checker struct{}

func rawMember(s, set string) string {
	for i := 0; i < len(s); i++ {
		if strings.IndexByte(set, s[i]) >= 0 {
			return string(s[i])
		}
	}
	return ""
}

const (
	asciiQuerySet    = " \"#<>"
	asciiSpQuerySet  = " \"#<>'"
	asciiFragmentSet = " \"<>`"
	asciiPathSet     = " \"#<>?`{}"
	asciiUserinfoSet = " \"#<>?`{}/:;=@[\\]^|"
	asciiForbidHost  = " #/:<>?@[\\]^|"
	asciiForbidDom   = " #/:<>?@[\\]^|%"
)

func (c *c04Checker) After(w *World, ev *Event) []Failure {
	var fs []Failure
	for _, id := range w.uids() {
		if !neutralOwner(w.U[id].Cfg) {
			continue // made by the plan's second, differently configured parser: its encode sets are its own
		}
		fs = append(fs, c04Check(fmt.Sprintf("u%d", id), w.Cur[id])...)
	}
	return fs
}

// neutralOwner: the URL belongs to a parser that behaves as the default one.
func neutralOwner(cfg Config) bool {
	return cfg.Profile == "" && (len(cfg.Opts) == 0 || len(cfg.Opts) == 1 && cfg.Opts[0].N == "report")
}

func c04Check(name string, o Obs) []Failure {
	var fs []Failure
	ctx := []string{"url", name, "href", q(o.Href)}
	add := func(clause string, kv ...string) {
		fs = append(fs, fail(clause, append(append([]string{}, ctx...), kv...)...))
	}
	special := stdSpecial[o.Scheme]
	auth := o.hasAuthority()
	if !schemeRe.MatchString(o.Scheme) {
		add("C04.1-scheme", "scheme", q(o.Scheme))
	}
	if special {
		if !auth {
			add("C04.2-special-host", "why", "special scheme without host")
		} else if o.Hostname == "" && o.Scheme != "file" {
			add("C04.2-special-host", "why", "special non-file scheme with empty host")
		}
		if o.Opaque || !strings.HasPrefix(o.Pathname, "/") {
			add("C04.2-special-path", "pathname", q(o.Pathname), "opaque", fmt.Sprint(o.Opaque))
		}
	}
	if o.Opaque && auth {
		add("C04.3-opaque-host", "pathname", q(o.Pathname))
	}
	if (o.Username != "" || o.Password != "" || o.Port != "") && (!auth || o.Hostname == "" || o.Scheme == "file") {
		add("C04.4-credentials-port", "username", q(o.Username), "password", q(o.Password), "port", q(o.Port), "hostname", q(o.Hostname))
	}
	if o.Port != "" {
		n, err := strconv.Atoi(o.Port)
		if err != nil || n < 0 || n > 65535 || strconv.Itoa(n) != o.Port {
			add("C04.5-port-canonical", "port", q(o.Port))
		} else if dp, ok := stdDefaultPort[o.Scheme]; ok && dp == n {
			add("C04.5-port-default", "port", q(o.Port), "scheme", o.Scheme)
		}
	}
	for i := 0; i < len(o.Href); i++ {
		if o.Href[i] < 0x20 || o.Href[i] > 0x7e {
			add("C04.6-printable-ascii", "byte", fmt.Sprintf("0x%02x", o.Href[i]))
			break
		}
	}
	// 7: percent-encode sets / forbidden code points per component
	if m := rawMember(o.Username, asciiUserinfoSet); m != "" {
		add("C04.7-encode-set", "component", "username", "raw", q(m))
	}
	if m := rawMember(o.Password, asciiUserinfoSet); m != "" {
		add("C04.7-encode-set", "component", "password", "raw", q(m))
	}
	if !o.Opaque {
		if m := rawMember(o.Pathname, asciiPathSet); m != "" {
			add("C04.7-encode-set", "component", "pathname", "raw", q(m))
		}
	}
	qs := asciiQuerySet
	if special {
		qs = asciiSpQuerySet
	}
	if m := rawMember(o.Query, qs); m != "" {
		add("C04.7-encode-set", "component", "query", "raw", q(m))
	}
	if m := rawMember(o.Fragment, asciiFragmentSet); m != "" {
		add("C04.7-encode-set", "component", "fragment", "raw", q(m))
	}
	if h := o.Hostname; h != "" {
		if strings.HasPrefix(h, "[") {
			if !strings.HasSuffix(h, "]") || !v6InnerRe.MatchString(h[1:len(h)-1]) {
				add("C04.7-host", "hostname", q(h))
			}
		} else {
			set := asciiForbidHost
			if special {
				set = asciiForbidDom
			}
			if m := rawMember(h, set); m != "" {
				add("C04.7-host", "hostname", q(h), "raw", q(m))
			}
			if special && h != strings.ToLower(h) {
				add("C04.7-host", "hostname", q(h), "why", "special host not lower case")
			}
		}
	}
	// 8: composition
	ui := ""
	if o.Username != "" || o.Password != "" {
		ui = o.Username
		if o.Password != "" {
			ui += ":" + o.Password
		}
		ui += "@"
	}
	ok := false
	for _, qq := range []string{o.Search, "?"} {
		if o.Search != "" && qq == "?" {
			continue
		}
		for _, ff := range []string{o.Hash, "#"} {
			if o.Hash != "" && ff == "#" {
				continue
			}
			var c string
			if auth {
				c = o.Protocol + "//" + ui + o.Host + o.Pathname + qq + ff
			} else {
				g := ""
				if !o.Opaque && strings.HasPrefix(o.Pathname, "//") {
					g = "/."
				}
				c = o.Protocol + g + o.Pathname + qq + ff
			}
			if c == o.Href {
				ok = true
			}
		}
	}
	if !ok {
		add("C04.8-composition", "protocol", q(o.Protocol), "userinfo", q(ui), "host", q(o.Host), "pathname", q(o.Pathname), "search", q(o.Search), "hash", q(o.Hash))
	}
	hp := o.Hostname
	if o.Port != "" {
		hp += ":" + o.Port
	}
	if hp != o.Host {
		add("C04.9-host-hostname-port", "host", q(o.Host), "hostname", q(o.Hostname), "port", q(o.Port))
	}
	if !(o.Href == o.HrefNF && o.Hash == "" || (strings.HasPrefix(o.Href, o.HrefNF+"#") && (o.Href == o.HrefNF+o.Hash || o.Hash == "" && o.Href == o.HrefNF+"#"))) {
		add("C04.10-href-without-fragment", "hrefNoFragment", q(o.HrefNF), "hash", q(o.Hash))
	}
	if strings.Contains(o.HrefNF, "#") {
		add("C04.10-href-without-fragment", "hrefNoFragment", q(o.HrefNF), "why", "contains #")
	}
	return fs
}

// ---------------------------------------------------------------- C03

type c03Checker struct {
	last   map[int]string // obs key at last evaluation per URL (skip unchanged objects)
	exempt int
	// foreign: the call that created this URL, run through the standard's algorithms on the
	// standard's state of its base, gives another result (or none). A created URL that does not
	// round-trip is exempt only if the standard creates the very same URL from the same call.
	foreign map[int]bool
}

func (c *c03Checker) Exempt() int { return c.exempt }

// modelRoundTrips: does the standard itself round-trip this state? true also when the model cannot
// judge (one-sided rule: exempt only on positive evidence).
func modelRoundTrips(o Obs) bool {
	m := abstract(o)
	// the abstraction must reproduce the real getters, otherwise it says nothing about this state
	if a, b := modelPrimary(m), o.Primary(); strings.Join(a, "\x01") != strings.Join(b, "\x01") {
		return true
	}
	model.AssumeACEFixedPoint = true
	m2, res := model.Parse(m.Href(false), nil, nil, model.NoState)
	model.AssumeACEFixedPoint = false
	if res == model.Unsupported {
		return true
	}
	if res == model.Failure {
		return false
	}
	return strings.Join(modelPrimary(m2), "\x01") == strings.Join(modelPrimary(m), "\x01")
}

// modelCreate runs the creating call through the standard's algorithms: a parse of strings, or the
// resolution of a reference against the standard's state of the base *object* (which may be a
// state no string parses to). ok=false: the model cannot say (IDNA it does not cover, base not
// tracked).
func (c *c03Checker) modelCreate(w *World, ev *Event) (m *model.URL, failed bool, ok bool) {
	parse := func(in string, base *model.URL) (*model.URL, bool, bool) {
		m, res := model.Parse(in, base, nil, model.NoState)
		switch res {
		case model.Unsupported:
			return nil, false, false
		case model.Failure:
			return nil, true, true
		}
		return m, false, true
	}
	op := ev.Op
	switch op.K {
	case "parse":
		if op.W == 1 && string(op.B) != "" {
			bm, bf, bok := parse(string(op.B), nil)
			if !bok {
				return nil, false, false
			}
			if bf {
				return nil, true, true
			}
			return parse(string(op.A), bm)
		}
		if op.W == 2 {
			// the basic URL parser with a (blank) url given: the standard strips nothing from the input
			m, res := model.Parse(string(op.A), nil, &model.URL{}, model.NoState)
			switch res {
			case model.Unsupported:
				return nil, false, false
			case model.Failure:
				return nil, true, true
			}
			return m, false, true
		}
		return parse(string(op.A), nil)
	case "resolve":
		if op.W == 1 {
			// against the re-parsed serialization of the base
			if ev.Read < 0 {
				return nil, false, false
			}
			bm, bf, bok := parse(w.Cur[ev.Read].HrefNF, nil)
			if !bok || bf {
				return nil, bf, bok
			}
			return parse(ev.Val, bm)
		}
		if ev.Read < 0 {
			return nil, false, false
		}
		bh := w.U[ev.Read]
		if bh == nil || bh.M == nil || bh.MDead {
			return nil, false, false
		}
		return parse(ev.Val, bh.M.Clone())
	case "clone":
		if ev.Read < 0 {
			return nil, false, false
		}
		bh := w.U[ev.Read]
		if bh == nil || bh.M == nil || bh.MDead {
			return nil, false, false
		}
		return bh.M.Clone(), false, true
	}
	return nil, false, false
}

// track runs the standard's algorithms in lockstep (as C05 does), so that the exemption can tell a
// state the standard reaches and does not round-trip from a state the standard never reaches.
func (c *c03Checker) track(w *World, ev *Event) {
	model.ToASCIIHook = realToASCII
	defer func() { model.ToASCIIHook = nil }()
	if ev.Created >= 0 {
		uh := w.U[ev.Created]
		o := w.Cur[ev.Created]
		if c.foreign == nil {
			c.foreign = map[int]bool{}
		}
		uh.MDead = false
		if m, failed, ok := c.modelCreate(w, ev); ok && w.Cfg.Profile == "" {
			if failed {
				c.foreign[ev.Created] = true
			} else if f, _, _ := diffPrimary(o.Primary(), modelPrimary(m)); f != "" {
				c.foreign[ev.Created] = true
			} else {
				uh.M = m
				return
			}
		}
		uh.M = abstract(o)
		if f, _, _ := diffPrimary(o.Primary(), modelPrimary(uh.M)); f != "" {
			uh.MDead = true
		}
		return
	}
	if ev.Target < 0 || ev.Op.K != "set" {
		return
	}
	uh := w.U[ev.Target]
	if uh.M == nil || uh.MDead {
		return
	}
	if uh.M.Set(modelSetterNames[ev.Op.W%9], ev.Val) == model.Unsupported {
		uh.MDead = true
	}
}

func (c *c03Checker) After(w *World, ev *Event) []Failure {
	if c.last == nil {
		c.last = map[int]string{}
	}
	c.track(w, ev)
	var fs []Failure
	for _, id := range w.uids() {
		o := w.Cur[id]
		k := o.Key()
		if c.last[id] == k {
			continue
		}
		c.last[id] = k
		r, err := url.Parse(o.Href)
		var why []string
		if err != nil {
			why = []string{"reparse", "error " + errType(err)}
		} else if r == nil {
			why = []string{"reparse", "nil"}
		} else {
			ro := observe(r)
			if f, a, b := diffPrimary(o.Primary(), ro.Primary()); f != "" {
				why = []string{"field", f, "before", q(a), "after", q(b)}
			}
		}
		if why == nil {
			// A state that round-trips is none of this property's business even where it is not the
			// standard's (that is C05's): go on from the real state, so that a later exception is
			// judged by itself.
			delete(c.foreign, id)
			if uh := w.U[id]; uh.M != nil && !uh.MDead {
				if f, _, _ := diffPrimary(o.Primary(), modelPrimary(uh.M)); f != "" {
					uh.M = abstract(o)
					if f, _, _ := diffPrimary(o.Primary(), modelPrimary(uh.M)); f != "" {
						uh.MDead = true
					}
				}
			}
			continue
		}
		if c.foreign[id] {
			// created by a call from which the standard creates something else: never exempt
		} else if uh := w.U[id]; uh.M != nil && !uh.MDead {
			if f, _, _ := diffPrimary(o.Primary(), modelPrimary(uh.M)); f == "" {
				// the standard reaches exactly this state: exempt iff the standard does not round-trip it
				if !modelRoundTrips(o) {
					c.exempt++
					continue
				}
			}
			// otherwise the standard, given the same calls, is in a different state: not exempt
		} else if !modelRoundTrips(o) {
			// the model lost track (IDNA): fall back to judging the state by itself
			c.exempt++
			continue
		}
		// for known-finding predicates: the Unicode form of ACE labels in the host
		hu, _ := idna.Punycode.ToUnicode(o.Hostname)
		fs = append(fs, fail("C03.reparse", append([]string{"url", fmt.Sprintf("u%d", id), "href", q(o.Href), "hostname", q(o.Hostname), "hostname-unicode", hu,
			"host-has-ace-label-and-std3-disallowed-ascii", fmt.Sprint(aceWithSTD3Disallowed(o.Hostname))}, why...)...))
	}
	return fs
}

// ---------------------------------------------------------------- C05

type c05Checker struct {
	trunc bool
	stop  bool
	abort string
}

func (c *c05Checker) Abort() string { return c.abort }

func (c *c05Checker) Truncated() bool { return c.trunc }
func (c *c05Checker) Stop() bool      { return c.stop || c.trunc }

// realToASCII delegates domain-to-ASCII for IDNA hosts to the implementation (the properties take
// the IDNA mapping as given; everything around it stays the model's). The method is reached
// through an interface assertion; if a refactoring removes it the model falls back to
// "unsupported" and such runs are truncated as before.
func realToASCII(domain string) (string, bool, bool) {
	t, ok := url.NewParser().(interface {
		ToASCII(src string, beStrict bool) (string, error)
	})
	if !ok {
		return "", false, false
	}
	a, err := t.ToASCII(domain, false)
	return a, err == nil, true
}

func (c *c05Checker) After(w *World, ev *Event) []Failure {
	model.ToASCIIHook = realToASCII
	defer func() { model.ToASCIIHook = nil }()
	if ev.Created >= 0 {
		uh := w.U[ev.Created]
		o := w.Cur[ev.Created]
		uh.M = abstract(o)
		if f, a, b := diffPrimary(o.Primary(), modelPrimary(uh.M)); f != "" {
			// The getters of the start state do not compose to its serialization, so the model cannot be
			// started from it. That is C04's business (coherent getters), not a setter deviation.
			c.abort = "abstraction:" + f + " real=" + q(a) + " model=" + q(b)
			c.stop = true
			return nil
		}
		return nil
	}
	if ev.Target < 0 || ev.Op.K != "set" {
		return nil
	}
	uh := w.U[ev.Target]
	if uh.M == nil || uh.MDead {
		return nil
	}
	name := modelSetterNames[ev.Op.W%9]
	if uh.M.Set(name, ev.Val) == model.Unsupported {
		uh.MDead = true
		c.trunc = true
		return nil
	}
	o := w.Cur[ev.Target]
	if f, a, b := diffPrimary(o.Primary(), modelPrimary(uh.M)); f != "" {
		uh.MDead = true
		c.stop = true
		return []Failure{fail("C05.refine", "setter", name, "value", q(ev.Val), "field", f, "real", q(a), "standard", q(b), "before", q(w.Prev[ev.Target].Href),
			"tab-newline-removal-joins-utf8", fmt.Sprint(tabRemovalJoinsUTF8(ev.Val)))}
	}
	// every other URL of the world has its own sequence of setter calls, to which this call does not
	// belong: it must still be where the standard's steps, applied to its own sequence, left it
	for _, id := range w.uids() {
		bh := w.U[id]
		if id == ev.Target || bh == nil || bh.M == nil || bh.MDead {
			continue
		}
		if f, a, b := diffPrimary(w.Cur[id].Primary(), modelPrimary(bh.M)); f != "" {
			bh.MDead = true
			c.stop = true
			return []Failure{fail("C05.refine", "setter", name, "value", q(ev.Val), "field", f, "real", q(a), "standard", q(b),
				"bystander", fmt.Sprintf("u%d (%s of u%d) changed by a setter call on u%d", id, bh.Prov, bh.From, ev.Target),
				"tab-newline-removal-joins-utf8", "false")}
		}
	}
	return nil
}

// tabRemovalJoinsUTF8: removing ASCII tab/newline bytes from s makes bytes that were ill-formed
// UTF-8 (each U+FFFD to the standard, which works on scalar value strings) join into different
// code points. Used only as a witness attribute for a known-finding predicate.
func tabRemovalJoinsUTF8(s string) bool {
	strip := func(x string) string {
		return strings.Map(func(r rune) rune {
			if r == '\t' || r == '\n' || r == '\r' {
				return -1
			}
			return r
		}, x)
	}
	var raw []byte
	for i := 0; i < len(s); i++ {
		if c := s[i]; c != '\t' && c != '\n' && c != '\r' {
			raw = append(raw, c)
		}
	}
	return scalar(string(raw)) != strip(scalar(s))
}

// aceWithSTD3Disallowed: the host has an ACE (xn--) label and, anywhere, an ASCII character that
// UseSTD3ASCIIRules disallows (anything but letters, digits, hyphen; dots separate labels). Witness
// attribute for a known-finding predicate only.
func aceWithSTD3Disallowed(h string) bool {
	ace := false
	for _, l := range strings.Split(strings.ToLower(h), ".") {
		if strings.HasPrefix(l, "xn--") {
			ace = true
		}
	}
	if !ace || strings.HasPrefix(h, "[") {
		return false
	}
	for i := 0; i < len(h); i++ {
		c := h[i]
		if c < 0x80 && !(c >= 'a' && c <= 'z' || c >= 'A' && c <= 'Z' || c >= '0' && c <= '9' || c == '-' || c == '.') {
			return true
		}
	}
	return false
}
