package main

import (
	"fmt"
	"os"
	"reflect"
	"sort"
	"strings"

	rt "github.com/nlnwa/whatwg-url/verifrt"
)

// Deep structural fingerprints (reflection through unexported fields; pointers by structure with
// alias numbering; maps by sorted key; funcs by nil-ness).

type fpWalker struct {
	seen  map[uintptr]int
	h     uint64
	nodes int
}

func (w *fpWalker) emit(s string) {
	for i := 0; i < len(s); i++ {
		w.h ^= uint64(s[i])
		w.h *= 1099511628211
	}
	w.h ^= 0xfe
	w.h *= 1099511628211
}

func (w *fpWalker) emitU(x uint64) {
	for i := 0; i < 8; i++ {
		w.h ^= x & 0xff
		w.h *= 1099511628211
		x >>= 8
	}
}

//go:norace
func (w *fpWalker) walk(v reflect.Value, depth int) {
	w.nodes++
	if depth > 100 || w.nodes > 2_000_000 {
		w.emit("CAP")
		return
	}
	if pp := v.Type().PkgPath(); pp == "sync" || pp == "sync/atomic" {
		// locks, once, atomics: their state changes while they do their job
		w.emit("sync:" + v.Type().String())
		return
	}
	switch v.Kind() {
	case reflect.Ptr:
		if v.IsNil() {
			w.emit("nil")
			return
		}
		p := v.Pointer()
		if id, ok := w.seen[p]; ok {
			w.emit("ref")
			w.emitU(uint64(id))
			return
		}
		w.seen[p] = len(w.seen)
		w.emit("ptr")
		w.walk(v.Elem(), depth+1)
	case reflect.Interface:
		if v.IsNil() {
			w.emit("nil")
			return
		}
		w.emit("iface:" + v.Elem().Type().String())
		w.walk(v.Elem(), depth+1)
	case reflect.Struct:
		w.emit(v.Type().String())
		if selfSynchronised(v.Type()) {
			// A struct that carries its own lock / once / atomic is meant to change under that
			// synchronisation (e.g. a lazily filled cache added as a legitimate repair). Whether it is
			// used correctly is the race detector's call, not the fingerprint's.
			w.emit("self-synchronised")
			return
		}
		for i := 0; i < v.NumField(); i++ {
			w.walk(v.Field(i), depth+1)
		}
	case reflect.Slice:
		if v.IsNil() {
			w.emit("nilslice")
			return
		}
		w.emit("slice")
		w.emitU(uint64(v.Len()))
		switch v.Type().Elem().Kind() {
		case reflect.Uint8, reflect.Uint16, reflect.Uint32, reflect.Uint64, reflect.Uint:
			for i := 0; i < v.Len(); i++ {
				w.emitU(v.Index(i).Uint())
			}
			w.nodes += v.Len() / 8
		default:
			for i := 0; i < v.Len(); i++ {
				w.walk(v.Index(i), depth+1)
			}
		}
	case reflect.Array:
		switch v.Type().Elem().Kind() {
		case reflect.Uint8, reflect.Uint16, reflect.Uint32, reflect.Uint64, reflect.Uint:
			for i := 0; i < v.Len(); i++ {
				w.emitU(v.Index(i).Uint())
			}
			w.nodes += v.Len() / 8
		default:
			for i := 0; i < v.Len(); i++ {
				w.walk(v.Index(i), depth+1)
			}
		}
	case reflect.Map:
		if v.IsNil() {
			w.emit("nilmap")
			return
		}
		keys := v.MapKeys()
		sort.Slice(keys, func(i, j int) bool { return fmt.Sprint(keys[i]) < fmt.Sprint(keys[j]) })
		w.emit("map")
		w.emitU(uint64(len(keys)))
		for _, k := range keys {
			w.walk(k, depth+1)
			w.walk(v.MapIndex(k), depth+1)
		}
	case reflect.String:
		w.emit("s:" + v.String())
	case reflect.Bool:
		if v.Bool() {
			w.emit("T")
		} else {
			w.emit("F")
		}
	case reflect.Int, reflect.Int8, reflect.Int16, reflect.Int32, reflect.Int64:
		w.emitU(uint64(v.Int()))
	case reflect.Uint, reflect.Uint8, reflect.Uint16, reflect.Uint32, reflect.Uint64, reflect.Uintptr:
		w.emitU(v.Uint())
	case reflect.Float32, reflect.Float64:
		w.emit(fmt.Sprint(v.Float()))
	case reflect.Func:
		if v.IsNil() {
			w.emit("nilfunc")
		} else {
			w.emit("func")
		}
	case reflect.Chan, reflect.UnsafePointer:
		w.emit("opaque")
	default:
		w.emit("?" + v.Kind().String())
	}
}

var syncCache = map[reflect.Type]bool{}

// selfSynchronised: the struct type directly contains a field whose type comes from sync or
// sync/atomic (by value or by pointer).
//
//go:norace
func selfSynchronised(t reflect.Type) bool {
	if b, ok := syncCache[t]; ok {
		return b
	}
	r := false
	for i := 0; i < t.NumField(); i++ {
		ft := t.Field(i).Type
		if ft.Kind() == reflect.Ptr {
			ft = ft.Elem()
		}
		if pp := ft.PkgPath(); pp == "sync" || pp == "sync/atomic" {
			r = true
		}
	}
	syncCache[t] = r
	return r
}

// fingerprint hashes the given roots (each in its own alias space).
//
//go:norace
func fingerprint(root interface{}) (uint64, int) {
	w := &fpWalker{seen: map[uintptr]int{}, h: 14695981039346656037}
	w.walk(reflect.ValueOf(root), 0)
	return w.h, w.nodes
}

// debugNoFP (env VERIF_DEBUG_NOFP=1) switches the fingerprint oracle off; only used to measure what
// the other oracles catch on their own during sensitivity experiments, never by registered checks.
var debugNoFP = os.Getenv("VERIF_DEBUG_NOFP") == "1"

// FP is a named set of fingerprints.
type FP struct {
	Names []string
	Sums  []uint64
	Nodes int
}

// fpGlobals fingerprints every package-level variable of every package of the module
// (registered by the generated zz_verif_globals.go files).
//
//go:norace
func fpGlobals() FP {
	var f FP
	g := rt.Globals()
	var pkgs []string
	for p := range g {
		pkgs = append(pkgs, p)
	}
	sort.Strings(pkgs)
	for _, p := range pkgs {
		var names []string
		for n := range g[p] {
			names = append(names, n)
		}
		sort.Strings(names)
		for _, n := range names {
			s, k := fingerprint(g[p][n])
			f.Names = append(f.Names, p+"."+n)
			f.Sums = append(f.Sums, s)
			f.Nodes += k
		}
	}
	return f
}

//go:norace
func fpObjects(names []string, objs []interface{}) FP {
	var f FP
	for i, o := range objs {
		s, k := fingerprint(o)
		f.Names = append(f.Names, names[i])
		f.Sums = append(f.Sums, s)
		f.Nodes += k
	}
	return f
}

// Diff returns the names whose fingerprint differs.
func (a FP) Diff(b FP) []string {
	var d []string
	if debugNoFP {
		return nil
	}
	for i := range a.Sums {
		if i >= len(b.Sums) || a.Sums[i] != b.Sums[i] {
			d = append(d, a.Names[i])
		}
	}
	return d
}

// zeroGlobals returns the package-level variables that hold the zero value of their type now.
func zeroGlobals() map[string]bool {
	z := map[string]bool{}
	for p, vars := range rt.Globals() {
		for n, ptr := range vars {
			v := reflect.ValueOf(ptr)
			if v.Kind() == reflect.Ptr && !v.IsNil() && v.Elem().IsZero() {
				z[p+"."+n] = true
			}
		}
	}
	return z
}

// lockedPackages returns the packages that declare a package-level variable of a sync type (a
// mutex, a once, a sync.Map, ...): such a package manages some of its state under its own locks.
func lockedPackages() map[string]bool {
	l := map[string]bool{}
	for p, vars := range rt.Globals() {
		for _, ptr := range vars {
			t := reflect.TypeOf(ptr)
			if t.Kind() == reflect.Ptr {
				t = t.Elem()
			}
			if t.Kind() == reflect.Ptr {
				t = t.Elem()
			}
			if pp := t.PkgPath(); pp == "sync" || pp == "sync/atomic" {
				l[p] = true
			}
		}
	}
	// ... or whose code (syntactically) uses synchronisation primitives at all: atomics on plain
	// integers, locks held in struct fields
	for _, site := range rt.SyncSites {
		name := rt.SiteNames[site]
		if i := strings.LastIndex(name, "/"); i >= 0 {
			l[name[:i]] = true
		}
	}
	return l
}
