package main

import (
	"fmt"
	"reflect"
	"strconv"
	"strings"

	"github.com/nlnwa/whatwg-url/url"

	"verif/harness/model"
)

// Obs is everything the public read-only accessors say about a URL.
type Obs struct {
	Href, HrefNF, Protocol, Username, Password, Host, Hostname, Port, Pathname, Search, Hash string
	Scheme, Query, Fragment                                                                  string
	V4, V6, Opaque, Special                                                                  bool
	DPort                                                                                    int
	VE                                                                                       string // digest of the recorded validation errors; filled by worldsim only, not part of Key (a re-parsed twin legitimately differs)
}

func observe(u *url.Url) Obs {
	return Obs{
		Href: u.Href(false), HrefNF: u.Href(true), Protocol: u.Protocol(), Username: u.Username(),
		Password: u.Password(), Host: u.Host(), Hostname: u.Hostname(), Port: u.Port(),
		Pathname: u.Pathname(), Search: u.Search(), Hash: u.Hash(),
		Scheme: u.Scheme(), Query: u.Query(), Fragment: u.Fragment(),
		V4: u.IsIPv4(), V6: u.IsIPv6(), Opaque: u.OpaquePath(), Special: u.IsSpecialScheme(),
		DPort: u.DecodedPort(),
	}
}

// veDigest renders what ValidationErrors() reports (count and every entry's text). It uses
// Error(), i.e. fmt, and therefore must never run on a schedsim task goroutine.
func veDigest(u *url.Url) string {
	ve := u.ValidationErrors()
	if len(ve) == 0 {
		return ""
	}
	var sb strings.Builder
	sb.WriteString(strconv.Itoa(len(ve)))
	for _, e := range ve {
		sb.WriteByte('|')
		if e != nil {
			sb.WriteString(e.Error())
		}
	}
	return sb.String()
}

// Primary returns the ten WHATWG API getters (the part C03/C05/C13 compare).
func (o Obs) Primary() []string {
	return []string{o.Href, o.Protocol, o.Username, o.Password, o.Host, o.Hostname, o.Port, o.Pathname, o.Search, o.Hash}
}

var primaryNames = []string{"href", "protocol", "username", "password", "host", "hostname", "port", "pathname", "search", "hash"}

// Key must not use fmt (or anything else that synchronises through sync.Pool): it runs on task
// goroutines in schedsim, where an accidental pool hand-off would give the race detector a
// happens-before edge that hides real races.
func (o Obs) Key() string {
	b := func(x bool) string {
		if x {
			return "T"
		}
		return "F"
	}
	return strings.Join(o.Primary(), "\x01") + "\x01" + o.HrefNF + "\x01" + o.Scheme + "\x01" + o.Query + "\x01" + o.Fragment +
		"\x01" + b(o.V4) + b(o.V6) + b(o.Opaque) + b(o.Special) + strconv.Itoa(o.DPort)
}

func diffPrimary(a, b []string) (string, string, string) {
	for i := range a {
		if a[i] != b[i] {
			return primaryNames[i], a[i], b[i]
		}
	}
	return "", "", ""
}

// hasAuthority: "scheme://" present <=> host non-null.
func (o Obs) hasAuthority() bool { return strings.HasPrefix(o.Href, o.Protocol+"//") }

// abstract rebuilds the model record of a real URL from public getters only (no reflection on
// private fields: the oracle survives refactoring).
func abstract(o Obs) *model.URL {
	m := &model.URL{Scheme: o.Scheme, Username: o.Username, Password: o.Password}
	if o.hasAuthority() {
		h := o.Hostname
		m.Host = &h
	}
	if o.Port != "" {
		n, _ := strconv.Atoi(o.Port)
		m.Port = &n
	}
	if o.Opaque {
		m.Opaque, m.OpaquePath = true, o.Pathname
	} else if o.Pathname != "" {
		m.Path = strings.Split(o.Pathname, "/")[1:]
	}
	if o.Search != "" {
		q := o.Search[1:]
		m.Query = &q
	} else if strings.HasSuffix(o.HrefNF, "?") {
		q := ""
		m.Query = &q
	}
	if len(o.Href) > len(o.HrefNF) {
		f := o.Href[len(o.HrefNF)+1:]
		m.Fragment = &f
	}
	return m
}

func modelPrimary(u *model.URL) []string {
	return []string{u.Href(false), u.Protocol(), u.Username, u.Password, u.HostGetter(), u.HostnameGetter(), u.PortGetter(), u.PathString(), u.Search(), u.Hash()}
}

// Pair is one name/value pair of a parameter list.
type Pair = model.Pair

var listViaIterate bool // set when the reflection path is unavailable (reported in the evidence)

// readList returns the ordered pair list of a SearchParams handle without side effects. No public
// accessor does that (Iterate ends in a write-through), so the slice of pairs is located by
// shape through reflection: the first slice field whose elements are (pointers to) structs with
// string fields Name and Value. If no such field exists after a refactoring, fall back to Iterate.
func readList(sp *url.SearchParams) []Pair {
	v := reflect.ValueOf(sp)
	if v.Kind() == reflect.Ptr && !v.IsNil() {
		v = v.Elem()
		if v.Kind() == reflect.Struct {
			for i := 0; i < v.NumField(); i++ {
				f := v.Field(i)
				if f.Kind() != reflect.Slice {
					continue
				}
				et := f.Type().Elem()
				ptr := false
				if et.Kind() == reflect.Ptr {
					et = et.Elem()
					ptr = true
				}
				if et.Kind() != reflect.Struct {
					continue
				}
				nf, ok1 := et.FieldByName("Name")
				vf, ok2 := et.FieldByName("Value")
				if !ok1 || !ok2 || nf.Type.Kind() != reflect.String || vf.Type.Kind() != reflect.String {
					continue
				}
				out := make([]Pair, 0, f.Len())
				for k := 0; k < f.Len(); k++ {
					e := f.Index(k)
					if ptr {
						if e.IsNil() {
							out = append(out, Pair{Name: "\x00<nil pair>", Value: ""})
							continue
						}
						e = e.Elem()
					}
					out = append(out, Pair{Name: e.FieldByName("Name").String(), Value: e.FieldByName("Value").String()})
				}
				return out
			}
		}
	}
	listViaIterate = true
	var out []Pair
	sp.Iterate(func(p *url.NameValuePair) { out = append(out, Pair{Name: p.Name, Value: p.Value}) })
	return out
}

// readListSynced performs one public read first (an implementation may synchronise the list
// lazily on access; only what public methods show counts) and then reads the list.
func readListSynced(sp *url.SearchParams) []Pair {
	_ = sp.Has("")
	return readList(sp)
}

// scalar maps invalid UTF-8 to U+FFFD (the statements treat strings as scalar value strings).
func scalar(s string) string { return string([]rune(s)) }

func pairsEqual(a, b []Pair) bool {
	if len(a) != len(b) {
		return false
	}
	for i := range a {
		if scalar(a[i].Name) != scalar(b[i].Name) || scalar(a[i].Value) != scalar(b[i].Value) {
			return false
		}
	}
	return true
}

// pairsExact compares byte for byte (no U+FFFD mapping).
func pairsExact(a, b []Pair) bool {
	if len(a) != len(b) {
		return false
	}
	for i := range a {
		if a[i] != b[i] {
			return false
		}
	}
	return true
}

func pairsString(l []Pair) string {
	var sb strings.Builder
	sb.WriteByte('[')
	for i, p := range l {
		if i > 0 {
			sb.WriteByte(' ')
		}
		sb.WriteString(strconv.QuoteToASCII(p.Name) + "=" + strconv.QuoteToASCII(p.Value))
	}
	sb.WriteByte(']')
	return sb.String()
}

// q quotes for logs and witnesses; very long strings are abbreviated (the plan keeps them whole).
func q(s string) string {
	if len(s) > 300 {
		return strconv.QuoteToASCII(s[:120]) + fmt.Sprintf("...(%d bytes)...", len(s)) + strconv.QuoteToASCII(s[len(s)-40:])
	}
	return strconv.QuoteToASCII(s)
}
