package main

// Plan generation for worldsim: per property, only that property's operation alphabet
// (DESIGN.md section 6.1), plus observe faults (reads that may change hidden state).

type pb struct {
	r         *RNG
	g         *Gen
	ops       []Op
	nextU     int
	nextS     int
	urls      []int       // URL handle ids created so far
	party     map[int]int // URL id -> owning party
	sps       []int       // parameter handle ids
	spOf      map[int]int // parameter handle -> URL id
	stale     map[int]bool
	nP        int
	theme     map[int][]string // per-plan value pools per setter (nil = plan is not themed)
	parseInto bool             // also parse through Parser.BasicParser(input, nil, NewUrl(), NoState)
	reenter   bool             // Iterate callbacks may read from the list being iterated and from its URL (C02)
}

func newPB(r *RNG) *pb {
	return &pb{r: r, g: newGen(r), nextU: 1, nextS: 1, party: map[int]int{}, spOf: map[int]int{}, stale: map[int]bool{}, nP: 1}
}

func hostileStr(s string) bool {
	for i := 0; i < len(s); i++ {
		if s[i] < 0x20 || s[i] > 0x7e {
			return true
		}
	}
	return false
}

func (b *pb) add(op Op) {
	if op.F == "" && (hostileStr(string(op.A)) || hostileStr(string(op.B))) {
		op.F = "hostile-bytes"
	}
	b.ops = append(b.ops, op)
	// repetition: the very same call again and again (counters, run-length limits, "the n-th time
	// is different"); not for operations that create handles
	if op.D == 0 && b.r.Intn(60) == 0 && len(b.ops) < 80 {
		n := []int{1, 2, 3, 4, 7, 8, 9, 15, 16, 17, 32}[b.r.Intn(11)]
		for i := 0; i < n; i++ {
			b.ops = append(b.ops, op)
		}
	}
}

func (b *pb) newU(p int) int {
	id := b.nextU
	b.nextU++
	b.urls = append(b.urls, id)
	b.party[id] = p
	return id
}

func (b *pb) parse(withBase bool) int {
	id := b.newU(1)
	op := Op{K: "parse", P: 1, D: id, A: QS(b.g.URL())}
	if b.parseInto && !withBase && b.r.Chance(1, 10) {
		op.W = 2
	}
	if withBase {
		op.W = 1
		op.B = QS(b.g.Base())
		op.A = QS(b.g.Ref())
	}
	b.add(op)
	return id
}

// pickU picks a URL handle, biased to the most recent ones.
func (b *pb) pickU() int {
	n := len(b.urls)
	if n == 0 {
		return 0
	}
	if b.r.Chance(1, 2) {
		return b.urls[n-1]
	}
	return b.urls[b.r.Intn(n)]
}

// themeVal: in themed plans each setter has a tiny per-plan pool of values, so that the same value
// comes back later in the history, on another object, or for a neighbouring setter.
func (b *pb) themeVal(w int) (string, bool) {
	if b.theme == nil || !b.r.Chance(1, 2) {
		return "", false
	}
	if b.r.Chance(1, 6) {
		w = b.r.Intn(9) // a value drawn for another component
	}
	if b.theme[w] == nil {
		n := b.r.Range(1, 3)
		for i := 0; i < n; i++ {
			b.theme[w] = append(b.theme[w], b.g.SetterValue(w))
		}
	}
	return b.theme[w][b.r.Intn(len(b.theme[w]))], true
}

func (b *pb) set(u int, w int) {
	if v, ok := b.themeVal(w); ok && !(w < 6 && len(v) > 8193) {
		// (a theme value drawn for another component may be one of the huge ones, which are kept away
		// from scheme, credentials, host and port: the library's handling of those is quadratic - a
		// 1 MiB host keeps one worker busy for half an hour - and that is C20's business)
		b.add(Op{K: "set", P: b.party[u], H: u, W: w, A: QS(v)})
		if w == 7 {
			for _, s := range b.sps {
				if b.spOf[s] == u {
					b.stale[s] = true
				}
			}
		}
		return
	}
	switch k := b.r.Intn(24); {
	case k == 0 || k == 1:
		// state-dependent value: the setter is handed the component's own current getter value
		// (a "nothing changes" call must still follow the standard's steps)
		b.add(Op{K: "set", P: b.party[u], H: u, W: w, V: "own"})
	case k == 2 && len(b.urls) > 1:
		b.add(Op{K: "set", P: b.party[u], H: u, W: w, V: "peer", S: b.urls[b.r.Intn(len(b.urls))]})
	case k == 3:
		suf := b.g.pick([]string{" ", "/", ":", "x", "?", "#", "\t", ".", "%41"})
		if w == 7 {
			// building a query step by step: u.SetSearch(u.Search() + "&k=v")
			suf = b.g.pick([]string{"&k=v", "&x", "&&y=1", "&=", "=v", "&a=1&b=2", "&" + b.g.Name() + "=" + b.g.Value(), "&"})
		}
		b.add(Op{K: "set", P: b.party[u], H: u, W: w, V: "own", A: QS(suf)})
	default:
		b.add(Op{K: "set", P: b.party[u], H: u, W: w, A: QS(b.g.SetterValue(w))})
	}
	if w == 7 {
		for _, s := range b.sps {
			if b.spOf[s] == u {
				b.stale[s] = true
			}
		}
	}
}

func (b *pb) resolve(u int, way int) int {
	p := b.party[u]
	if b.r.Chance(1, 2) {
		b.nP++
		p = b.nP
	}
	id := b.newU(p)
	op := Op{K: "resolve", P: p, H: u, D: id, W: way, A: QS(b.g.Ref())}
	if len(b.urls) > 1 && b.r.Chance(1, 10) {
		// the reference is the serialization of a live URL (another one, or the base itself) + suffix
		op.V, op.S = "peerhref", b.urls[b.r.Intn(len(b.urls)-1)]
		op.A = QS(b.g.pick([]string{"", "", "#f", "?q", "/..", "x"}))
	}
	b.add(op)
	return id
}

func (b *pb) clone(u int) int {
	p := b.party[u]
	if b.r.Chance(1, 2) {
		b.nP++
		p = b.nP
	}
	id := b.newU(p)
	b.add(Op{K: "clone", P: p, H: u, D: id})
	return id
}

func (b *pb) getsp(u int) int {
	id := b.nextS
	b.nextS++
	b.sps = append(b.sps, id)
	b.spOf[id] = u
	b.add(Op{K: "getsp", P: b.party[u], H: u, D: id, F: "observe"})
	return id
}

func (b *pb) observer(u int) {
	switch b.r.Intn(4) {
	case 0, 1:
		b.add(Op{K: "obs", P: b.party[u], H: u, W: int(b.r.U64() & 0xfffff), F: "observe"})
	case 2:
		b.add(Op{K: "clonediscard", P: b.party[u], H: u, F: "observe"})
	case 3:
		b.add(Op{K: "resolvediscard", P: b.party[u], H: u, A: QS(b.g.Ref()), F: "observe"})
	}
}

// spMut adds a parameter mutation on handle s. kinds: weights for append,delete,set,sort,sortabs,iter.
func (b *pb) spMut(s int, iter bool) {
	f := ""
	if b.stale[s] {
		f = "stale-handle"
	} else {
		// an earlier handle of the same URL than the latest one
		for i := len(b.sps) - 1; i >= 0; i-- {
			if b.spOf[b.sps[i]] == b.spOf[s] {
				if b.sps[i] != s {
					f = "stale-handle"
				}
				break
			}
		}
	}
	p := b.party[b.spOf[s]]
	w := []int{5, 3, 4, 2, 2, 0}
	if iter {
		w[5] = 2
	}
	switch b.r.Weighted(w) {
	case 0:
		if b.r.Chance(1, 20) {
			// the pair with an empty name and an empty value: it serializes to "=" (or to nothing under
			// WithSkipEqualsForEmptySearchParamsValue) and is dropped or kept by parsers in odd ways
			b.add(Op{K: "sp.append", P: p, H: s, A: "", B: "", F: f})
			return
		}
		b.add(Op{K: "sp.append", P: p, H: s, A: QS(b.g.Name()), B: QS(b.g.Value()), F: f})
	case 1:
		b.add(Op{K: "sp.delete", P: p, H: s, A: QS(b.g.Name()), F: f})
	case 2:
		b.add(Op{K: "sp.set", P: p, H: s, A: QS(b.g.Name()), B: QS(b.g.Value()), F: f})
	case 3:
		b.add(Op{K: "sp.sort", P: p, H: s, F: f})
	case 4:
		b.add(Op{K: "sp.sortabs", P: p, H: s, F: f})
	case 5:
		w := b.r.Intn(3)
		if b.reenter && b.r.Chance(1, 2) {
			w = 3 + b.r.Intn(6) // the callback reads from the same list or from its URL
		}
		b.add(Op{K: "sp.iter", P: p, H: s, W: w, A: QS(b.g.Name()), B: QS(b.g.Value()), F: f})
	}
}

// rebuildMotif: fill a list, read it, clear it, rebuild it (same pairs, possibly permuted), read
// again - what people do with a query ("reset the filters, apply them again") and the classic way to
// meet state that was cached by position or identity before the clear. Names come from a pool of
// two, so duplicates and "same name at the same index again" are the rule.
func (b *pb) rebuildMotif(u int) {
	s := b.pickS()
	if s == 0 || b.spOf[s] != u {
		s = b.getsp(u)
	}
	p := b.party[u]
	names := []string{b.g.Name(), b.g.Name()}
	type kv struct{ n, v string }
	var pairs []kv
	k := b.r.Range(2, 5)
	for i := 0; i < k; i++ {
		pairs = append(pairs, kv{names[b.r.Intn(2)], b.g.Value()})
	}
	fill := func() {
		for _, x := range pairs {
			b.add(Op{K: "sp.append", P: p, H: s, A: QS(x.n), B: QS(x.v)})
		}
	}
	reads := func() {
		n := b.r.Range(1, 3)
		for i := 0; i < n; i++ {
			k := []string{"sp.get", "sp.has", "sp.getall", "sp.get"}[b.r.Intn(4)]
			b.add(Op{K: k, P: p, H: s, A: QS(names[b.r.Intn(2)]), F: "observe"})
		}
	}
	fill()
	reads()
	switch b.r.Intn(4) {
	case 0, 1:
		b.add(Op{K: "set", P: p, H: u, W: 7, A: ""})
	case 2:
		b.add(Op{K: "set", P: p, H: u, W: 7, A: "?"})
	case 3:
		b.add(Op{K: "sp.delete", P: p, H: s, A: QS(names[0])})
		b.add(Op{K: "sp.delete", P: p, H: s, A: QS(names[1])})
	}
	if b.r.Chance(1, 3) { // permute
		for i := len(pairs) - 1; i > 0; i-- {
			j := b.r.Intn(i + 1)
			pairs[i], pairs[j] = pairs[j], pairs[i]
		}
	}
	if b.r.Chance(1, 3) {
		pairs = append(pairs, kv{names[b.r.Intn(2)], b.g.Value()})
	}
	fill()
	reads()
}

func (b *pb) spRead(s int) {
	p := b.party[b.spOf[s]]
	k := []string{"sp.get", "sp.getall", "sp.has", "sp.string"}[b.r.Intn(4)]
	b.add(Op{K: k, P: p, H: s, A: QS(b.g.Name()), F: "observe"})
}

func (b *pb) pickS() int {
	if len(b.sps) == 0 {
		return 0
	}
	return b.sps[b.r.Intn(len(b.sps))]
}

// histLen: most histories are short (<= 12), a tail up to 40.
func histLen(r *RNG) int {
	switch k := r.Intn(20); {
	case k < 8:
		return r.Range(1, 4)
	case k < 16:
		return r.Range(3, 12)
	case k < 19:
		return r.Range(8, 24)
	}
	return r.Range(20, 40)
}

func neutralConfig(r *RNG) Config {
	if r.Chance(1, 4) {
		return Config{Opts: []OptSpec{{N: "report"}}}
	}
	return Config{}
}

// setterWeights: swarm-varied weights over the nine setters with a per-property bias.
func setterWeights(r *RNG, bias []int) []int {
	w := make([]int, 9)
	for i := range w {
		w[i] = bias[i]
		switch r.Intn(4) {
		case 0:
			w[i] = 0
		case 1:
			w[i] *= 3
		}
	}
	s := 0
	for _, x := range w {
		s += x
	}
	if s == 0 {
		copy(w, bias)
	}
	return w
}

func genWorldPlan(prop string, master uint64, run int) Plan {
	seed := runSeed(master, prop, run)
	r := NewRNG(seed)
	b := newPB(r)
	pl := Plan{Prop: prop, Seed: master, Run: run}
	n := histLen(r)
	b.parseInto = prop == "C04" || prop == "C02" || prop == "C19" || prop == "C03"
	b.reenter = prop == "C02"
	if r.Chance(1, 2) {
		b.theme = map[int][]string{}
		b.g.themeNames = true
	}
	switch prop {
	case "C19":
		pl.Cfg = neutralConfig(r)
		cross := 0
		if r.Chance(1, 8) {
			// two parsers that may disagree about special schemes; some resolutions go through the other one
			c2 := []Config{{Profile: "Semantic"}, {Opts: []OptSpec{{N: "special", I: 0}}}, {Opts: []OptSpec{{N: "special", I: 1}}}, {Opts: []OptSpec{{N: "special", I: 3}}}, {}, {Opts: []OptSpec{{N: "special", I: 2}}}, {Opts: []OptSpec{{N: "special", I: 4}}}}[r.Intn(7)]
			pl.Cfg2 = &c2
			cross = 3
		}
		if r.Chance(1, 5) {
			// configuration-independent clauses only, see c19Checker; fail-on-validation-error is left
			// out: it makes setters abort half-way by design, and the states that leaves behind are not
			// what the statement is about
			pl.Cfg = genConfig(r, true)
			var o []OptSpec
			for _, x := range pl.Cfg.Opts {
				if x.N != "failOnVE" {
					o = append(o, x)
				}
			}
			pl.Cfg.Opts = o
		}
		b.parse(r.Chance(1, 4))
		sw := setterWeights(r, []int{3, 1, 1, 4, 4, 4, 1, 1, 1})
		kw := []int{10, r.Range(0, 4), r.Range(0, 3), r.Range(0, 2)} // set, resolve, clone, observer
		for i := 0; i < n; i++ {
			u := b.pickU()
			switch r.Weighted(kw) {
			case 0:
				b.set(u, r.Weighted(sw))
			case 1:
				b.resolve(u, []int{0, 0, 0, 1, 3, 3}[r.Weighted([]int{1, 1, 1, 1, cross, cross})])
			case 2:
				b.clone(u)
			case 3:
				b.observer(u)
			}
		}
	case "C04":
		pl.Cfg = neutralConfig(r)
		b.parse(r.Chance(1, 4))
		sw := setterWeights(r, []int{3, 2, 2, 3, 3, 3, 3, 2, 2})
		kw := []int{10, r.Range(0, 4), r.Range(0, 2), 0, 0, 0, 0}
		cross := 0
		if r.Chance(1, 4) {
			// the tenth setter, SetSearchParams, with lists of this URL, of other URLs, and of URLs that
			// belong to a differently configured parser (made by that parser resolving against a base of
			// this one). The invariants are asked of the URLs of the default parser only.
			kw[3], kw[4], kw[5], kw[6] = r.Range(1, 3), r.Range(1, 4), r.Range(1, 3), r.Range(0, 2)
			kw[0] = r.Range(2, 10)
			if r.Chance(2, 3) {
				c2 := []Config{{Profile: "Semantic"}, {Profile: "GoogleSafeBrowsing"}, {Profile: "WhatWg"}, genConfig(r, true), genConfig(r, true)}[r.Intn(5)]
				pl.Cfg2 = &c2
				cross = 3
			}
		}
		for i := 0; i < n; i++ {
			u := b.pickU()
			switch r.Weighted(kw) {
			case 0:
				b.set(u, r.Weighted(sw))
			case 1:
				if id := b.resolve(u, r.Weighted([]int{3, 1, 0, cross})); b.ops[len(b.ops)-1].W == 3 && b.ops[len(b.ops)-1].D == id {
					b.ops[len(b.ops)-1].V = "fwd"
				}
			case 2:
				b.observer(u)
			case 3:
				b.getsp(u)
			case 4:
				if s := b.pickS(); s != 0 {
					b.spMut(s, true)
				} else {
					b.getsp(u)
				}
			case 5:
				if s := b.pickS(); s != 0 {
					id := b.nextS
					b.nextS++
					b.add(Op{K: "setsp", P: b.party[u], H: u, W: s, D: id})
					var keep []int
					for _, x := range b.sps {
						if b.spOf[x] != u {
							keep = append(keep, x)
						}
					}
					b.sps = append(keep, id)
					b.spOf[id] = u
					if r.Chance(1, 3) {
						// motif: adopt a list, copy the adopter, go on working with the copy's list
						c := b.clone(u)
						cs := b.getsp(c)
						for k := r.Range(1, 3); k > 0; k-- {
							b.spMut(cs, true)
						}
					}
				}
			case 6:
				// a copy of a URL that may hold an adopted list: the copy's list is its own from then on
				b.clone(u)
			}
		}
	case "C03":
		pl.Cfg = neutralConfig(r)
		u := b.parse(r.Chance(1, 4))
		sw := setterWeights(r, []int{3, 2, 2, 3, 3, 2, 4, 3, 3})
		ow := r.Range(0, 2)
		// "any input, any base": in a third of the plans bases are also URL *objects* in whatever state
		// their history left them (a state no base string parses to), and copies of them
		rw, cw := 0, 0
		if r.Chance(1, 3) {
			rw, cw = r.Range(1, 3), r.Range(0, 1)
		}
		for i := 0; i < n; i++ {
			switch r.Weighted([]int{10, ow, rw, cw}) {
			case 0:
				b.set(u, r.Weighted(sw))
			case 1:
				b.observer(u)
			case 2:
				b.resolve(u, r.Weighted([]int{3, 1, 2}))
				u = b.pickU()
			case 3:
				b.clone(u)
				u = b.pickU()
			}
		}
	case "C05":
		pl.Cfg = neutralConfig(r)
		b.g.idna = 2 // IDNA hosts are judged with the implementation's own domain-to-ASCII (model.ToASCIIHook)
		u := b.parse(r.Chance(1, 6)) // "every parsed URL": also one parsed against a base string
		sw := setterWeights(r, []int{3, 2, 2, 3, 3, 3, 3, 2, 2})
		// relatives: further URLs are derived from the ones at hand (a reference resolved against the
		// live object, a copy) and every one of them gets setter calls of its own; each must end up
		// where the standard's steps, applied to ITS sequence, lead - whatever was done to its relatives
		relatives := r.Chance(1, 5)
		for i := 0; i < n; i++ {
			if relatives && r.Chance(1, 5) {
				var d int
				if r.Chance(2, 3) {
					d = b.resolve(u, r.Weighted([]int{3, 1, 2}))
				} else {
					d = b.clone(u)
				}
				if r.Chance(1, 2) {
					u = d
				}
				continue
			}
			if relatives && r.Chance(1, 4) {
				u = b.pickU()
			}
			b.set(u, r.Weighted(sw))
		}
	case "C11":
		pl.Cfg = neutralConfig(r)
		var u int
		if r.Chance(1, 5) {
			u = b.parse(false)
		} else {
			u = b.newU(1)
			pre := b.g.pick([]string{"s://h/", "http://h/", "ws://h/p", "foo:bar", "file:///x", "https://u:p@h:8/a/b", "s://h"})
			suf := ""
			if r.Chance(1, 5) {
				suf = "#" + b.g.pick(gFrags)
			}
			b.add(Op{K: "parse", P: 1, D: u, A: QS(pre + "?" + b.g.Query() + suf)})
		}
		if r.Chance(3, 4) {
			b.getsp(u)
		}
		if r.Chance(1, 8) {
			b.rebuildMotif(u)
			n = n / 3
		}
		kw := []int{12, r.Range(0, 3), r.Range(0, 3), r.Range(0, 2), r.Range(0, 1)} // mutate, SetSearch, read, getsp, observer
		iter := r.Chance(1, 2)
		// copies: the owning URL is cloned somewhere in the history; each copy's list is a list of its
		// own from then on (it starts as a copy of the source's list), and operations go on through
		// handles of either
		copies := r.Chance(1, 5)
		for i := 0; i < n; i++ {
			if copies && r.Chance(1, 6) {
				if len(b.urls) < 2 || r.Chance(1, 2) {
					c := b.clone(u)
					if r.Chance(1, 2) {
						u = c
					}
					if r.Chance(2, 3) {
						b.getsp(c)
					}
				} else {
					u = b.pickU()
				}
				continue
			}
			switch r.Weighted(kw) {
			case 0:
				if s := b.pickS(); s != 0 {
					b.spMut(s, iter)
				} else {
					b.getsp(u)
				}
			case 1:
				v := b.g.Query()
				if r.Chance(1, 4) {
					v = "?" + v
				}
				b.add(Op{K: "set", P: 1, H: u, W: 7, A: QS(v)})
			case 2:
				if s := b.pickS(); s != 0 {
					b.spRead(s)
				}
			case 3:
				b.getsp(u)
			case 4:
				b.observer(u)
			}
		}
	case "C12":
		pl.Cfg = neutralConfig(r)
		if r.Chance(1, 4) {
			// both C12 clauses are stated relative to the implementation's own serializer and its own
			// fresh initialisation, so they hold under every configuration (not under
			// fail-on-validation-error, which lets SetSearch abort half-way by design)
			// nor with repeated percent-decoding: there the canonicalizer deliberately stores
			// pre-encoded text in the pairs, so the list is not the parse of the query right after Parse)
			pl.Cfg = genConfig(r, false)
			var o []OptSpec
			for _, x := range pl.Cfg.Opts {
				// parser options only (a canonicalizer option may rewrite the query from the list inside
				// Parse), and none that changes how a query is encoded or decoded (re-parsing an encoded
				// query is not idempotent under an encode set that contains '%', and the reference would
				// have to model the encoding override)
				switch x.N {
				case "report", "lax", "collapse", "acceptInvalid", "singlePct", "allowPathNonBase", "skipDrive", "skipTrailing", "skipEquals", "special", "pre", "post":
					o = append(o, x)
				}
			}
			pl.Cfg.Opts = o
		}
		u := b.parse(r.Chance(1, 6))
		if r.Chance(1, 2) {
			// make sure there is a query to talk about
			b.ops[len(b.ops)-1] = Op{K: "parse", P: 1, D: u, A: QS(b.g.pick([]string{"http://h/", "s://h/p", "foo:bar", "ws://h", "file:///x", "https://u:p@h:8/a/b"}) + "?" + b.g.Query() + b.g.pick([]string{"", "", "#f"}))}
		}
		early := r.Chance(1, 2)
		if early {
			b.getsp(u)
		}
		if r.Chance(1, 10) {
			b.rebuildMotif(u)
			n = n / 3
		}
		sw := setterWeights(r, []int{1, 1, 1, 1, 1, 1, 2, 0, 2})
		kw := []int{10, r.Range(1, 6), r.Range(0, 3), r.Range(0, 3), r.Range(0, 2), 0} // sp mutation, SetSearch, other setter, getsp, observer, snapshot/install
		if r.Chance(1, 4) {
			// the URL's list is replaced through SetSearchParams by a list of its own: one of its handles
			// or a SearchParams.Clone snapshot of one taken earlier (never mutated, never another URL's).
			// Only the title's invariant is asked of it: what SearchParams() returns afterwards and the
			// query describe the same thing.
			kw[5] = r.Range(1, 3)
		}
		var snaps []int
		pokes := 0
		if r.Chance(1, 6) {
			pokes = r.Range(1, 2) // pairs kept from an Iterate callback are written to later
		}
		// copies: the URL is cloned somewhere in the history and the history goes on, on either copy,
		// through handles of either. A copy of a URL is a URL: each of them, taken by itself, must keep
		// describing one query with its own list, whatever is done to the other (a list, pair or query
		// string shared between the copies shows as a list changing under a query that nobody wrote).
		copies := kw[5] == 0 && r.Chance(1, 4)
		for i := 0; i < n; i++ {
			if copies && r.Chance(1, 6) {
				if len(b.urls) < 2 || r.Chance(1, 2) {
					c := b.clone(u)
					if r.Chance(1, 2) {
						u = c
					}
					if r.Chance(1, 2) {
						b.getsp(c)
					}
				} else {
					u = b.pickU()
				}
				continue
			}
			if pokes > 0 && r.Intn(10) < pokes {
				if s := b.pickS(); s != 0 {
					op := Op{K: "sp.poke", P: 1, H: s, W: r.Intn(4), A: QS(b.g.pick([]string{"x", "1", "&", " ", "%41", "é"}))}
					if r.Chance(1, 4) {
						op.B = op.A
					}
					b.add(op)
					if r.Chance(2, 3) {
						b.spMut(s, true)
					}
					continue
				}
			}
			switch r.Weighted(kw) {
			case 5:
				s := b.pickS()
				if s == 0 {
					b.getsp(u)
					break
				}
				if len(snaps) == 0 || r.Chance(1, 2) {
					id := b.nextS
					b.nextS++
					snaps = append(snaps, id)
					b.add(Op{K: "sp.clone", P: 1, H: s, D: id, W: 1})
					break
				}
				x := s
				if r.Chance(3, 4) {
					k := r.Intn(len(snaps))
					x = snaps[k]
					snaps = append(snaps[:k:k], snaps[k+1:]...)
				}
				id := b.nextS
				b.nextS++
				b.add(Op{K: "setsp", P: 1, H: u, W: x, D: id, V: "own"})
				b.sps = []int{id}
				b.spOf[id] = u
			case 0:
				if s := b.pickS(); s != 0 {
					b.spMut(s, true)
				} else {
					b.getsp(u)
				}
			case 1:
				v := ""
				switch r.Intn(6) {
				case 0:
				case 1:
					v = b.g.SetterValue(7)
				default:
					v = b.g.Query()
					if r.Chance(1, 4) {
						v = "?" + v
					}
				}
				if r.Chance(1, 6) {
					// building a query step by step: u.SetSearch(u.Search() + "&k=v")
					b.add(Op{K: "set", P: 1, H: u, W: 7, V: "own", A: QS(b.g.pick([]string{"&k=v", "&x", "&&y=1", "&=", "=v", "&a=1&b=2", "&" + b.g.Name() + "=" + b.g.Value(), "&"}))})
				} else {
					b.add(Op{K: "set", P: 1, H: u, W: 7, A: QS(v)})
				}
				for _, s := range b.sps {
					b.stale[s] = true
				}
			case 2:
				b.set(u, r.Weighted(sw))
			case 3:
				b.getsp(u)
			case 4:
				if s := b.pickS(); s != 0 && r.Chance(1, 2) {
					b.spRead(s)
				} else {
					b.observer(u)
				}
			}
		}
	case "C13":
		pl.Cfg = neutralConfig(r)
		if r.Chance(1, 4) {
			pl.Cfg = Config{Opts: []OptSpec{{N: "report"}}} // ValidationErrors() is one of "every getter of the other"
		}
		u := b.parse(r.Chance(1, 6))
		if r.Chance(1, 3) {
			b.getsp(u) // materialise before deriving
			if r.Chance(1, 2) {
				b.spMut(b.sps[0], true)
			}
		}
		if r.Chance(1, 4) {
			b.set(u, r.Intn(9))
		}
		if r.Chance(1, 10) {
			// a second, differently configured parser resolves against bases the first one made:
			// isolation does not depend on who resolves
			c2 := genConfig(r, true)
			var o []OptSpec
			for _, x := range c2.Opts {
				if x.N != "failOnVE" {
					o = append(o, x)
				}
			}
			c2.Opts = o
			pl.Cfg2 = &c2
		}
		derive := func(src int) {
			switch {
			case r.Chance(1, 2):
				b.clone(src)
			case pl.Cfg2 != nil && r.Chance(1, 2):
				b.resolve(src, 3)
			default:
				b.resolve(src, 0)
			}
		}
		derive(u)
		sw := setterWeights(r, []int{2, 1, 1, 2, 2, 2, 4, 3, 2})
		kw := []int{8, r.Range(2, 8), r.Range(1, 3), r.Range(0, 2), r.Range(0, 2), 0} // setter, sp mutation, getsp, derive, observer, adopt a list
		if r.Chance(1, 6) {
			// SetSearchParams is a setter operation too. A third, unrelated URL lends its list; lender and
			// adopter share it from then on (that is what the caller asked for) and count as one object,
			// but whatever is derived from either of them afterwards must be as independent as ever.
			x := b.parse(false)
			b.getsp(x)
			kw[5] = r.Range(1, 2)
			kw[3]++
		}
		for i := 0; i < n; i++ {
			t := b.urls[r.Intn(len(b.urls))]
			switch r.Weighted(kw) {
			case 5:
				if s := b.pickS(); s != 0 {
					id := b.nextS
					b.nextS++
					b.add(Op{K: "setsp", P: b.party[t], H: t, W: s, D: id})
					var keep []int
					for _, x := range b.sps {
						if b.spOf[x] != t {
							keep = append(keep, x)
						}
					}
					b.sps = append(keep, id)
					b.spOf[id] = t
					if r.Chance(1, 2) && len(b.urls) < 7 {
						c := b.clone(t)
						cs := b.getsp(c)
						b.spMut(cs, true)
					}
				}
			case 0:
				b.set(t, r.Weighted(sw))
			case 1:
				if s := b.pickS(); s != 0 {
					b.spMut(s, true)
				} else {
					b.getsp(t)
				}
			case 2:
				b.getsp(t)
			case 3:
				if len(b.urls) < 6 {
					derive(t)
				}
			case 4:
				b.observer(t)
			}
		}
	case "C02":
		pl.Cfg = genConfig(r, true)
		b.g.hostile = 20
		b.g.long = true
		b.g.idna = 2
		if r.Chance(1, 12) {
			u := b.newU(1)
			b.add(Op{K: "newurl", P: 1, D: u})
		} else {
			b.parse(r.Chance(1, 3))
		}
		sw := setterWeights(r, []int{2, 1, 1, 2, 2, 2, 2, 2, 2})
		kw := []int{10, 3, 2, 3, 4, 1, 1, 1, 1, 1} // set, resolve, clone, getsp, spmut, spread, observer, pes, canon, setsp/parse
		for i := range kw {
			if r.Chance(1, 4) {
				kw[i] = 0
			}
		}
		kw[0]++
		for i := 0; i < n; i++ {
			u := b.pickU()
			switch r.Weighted(kw) {
			case 0:
				b.set(u, r.Weighted(sw))
			case 1:
				b.resolve(u, r.Intn(3))
			case 2:
				b.clone(u)
			case 3:
				b.getsp(u)
			case 4:
				if s := b.pickS(); s != 0 {
					b.spMut(s, true)
				} else {
					b.getsp(u)
				}
			case 5:
				if s := b.pickS(); s != 0 {
					switch r.Intn(4) {
					case 0:
						b.add(Op{K: "sp.escape", P: b.party[b.spOf[s]], H: s, A: QS(b.g.Value())})
					case 1:
						id := b.nextS
						b.nextS++
						b.sps = append(b.sps, id)
						b.spOf[id] = b.spOf[s]
						b.add(Op{K: "sp.clone", P: b.party[b.spOf[s]], H: s, D: id})
					default:
						b.spRead(s)
					}
				}
			case 6:
				b.observer(u)
			case 7:
				b.add(Op{K: "pes", P: 1, A: QS(b.g.URL()), W: r.Intn(16)})
			case 8:
				b.add(Op{K: "canon", P: b.party[u], H: u})
			case 9:
				if s := b.pickS(); s != 0 && r.Chance(1, 2) {
					b.add(Op{K: "setsp", P: b.party[u], H: u, W: s})
				} else {
					b.parse(r.Chance(1, 2))
				}
			}
		}
	}
	pl.Ops = b.ops
	return pl
}

func checkerFor(prop string) func() Checker {
	switch prop {
	case "C02":
		return func() Checker { return &c02Checker{} }
	case "C03":
		return func() Checker { return &c03Checker{} }
	case "C04":
		return func() Checker { return &c04Checker{} }
	case "C05":
		return func() Checker { return &c05Checker{} }
	case "C11":
		return func() Checker { return &c11Checker{} }
	case "C12":
		return func() Checker { return &c12Checker{} }
	case "C13":
		return func() Checker { return &c13Checker{} }
	case "C19":
		return func() Checker { return &c19Checker{} }
	}
	return nil
}
