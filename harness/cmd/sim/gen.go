package main

import (
	"encoding/json"
	"strings"

	"verif/harness"
)

// Workload generation: a weighted URL grammar + the WPT corpus (snapshotted in /verif) + hostile
// byte classes. Everything is drawn from the run's RNG.

var (
	corpusInputs  []string // WPT inputs
	corpusBases   []string // WPT bases
	corpusHrefs   []string // setter test start URLs and WPT hrefs
	corpusSetVals [9][]string
	corpusTokens  []string
)

func loadCorpus() {
	if corpusInputs != nil {
		return
	}
	var raw []json.RawMessage
	_ = json.Unmarshal(harness.URLTestData, &raw)
	seenB := map[string]bool{}
	tok := map[string]bool{}
	for _, r := range raw {
		var c struct {
			Input string
			Base  *string
			Href  string
		}
		if json.Unmarshal(r, &c) != nil || (c.Input == "" && c.Href == "") {
			continue
		}
		if len(c.Input) <= 200 {
			corpusInputs = append(corpusInputs, c.Input)
		}
		if c.Base != nil && !seenB[*c.Base] && *c.Base != "" {
			seenB[*c.Base] = true
			corpusBases = append(corpusBases, *c.Base)
		}
		if c.Href != "" && len(c.Href) <= 200 {
			corpusHrefs = append(corpusHrefs, c.Href)
		}
		for _, t := range tokenize(c.Input) {
			tok[t] = true
		}
	}
	var all map[string]json.RawMessage
	_ = json.Unmarshal(harness.SettersTests, &all)
	for i, name := range []string{"protocol", "username", "password", "host", "hostname", "port", "pathname", "search", "hash"} {
		var tests []struct {
			Href      string
			New_value string
		}
		_ = json.Unmarshal(all[name], &tests)
		for _, t := range tests {
			corpusHrefs = append(corpusHrefs, t.Href)
			corpusSetVals[i] = append(corpusSetVals[i], t.New_value)
		}
	}
	for t := range tok {
		corpusTokens = append(corpusTokens, t)
	}
	sortStrings(corpusTokens) // map iteration order must not leak into the run
}

func sortStrings(l []string) {
	for i := 1; i < len(l); i++ {
		for j := i; j > 0 && l[j] < l[j-1]; j-- {
			l[j], l[j-1] = l[j-1], l[j]
		}
	}
}

// tokenize splits at URL delimiters, keeping the delimiters as tokens.
func tokenize(s string) []string {
	var out []string
	cur := ""
	for _, r := range s {
		if strings.ContainsRune(":/\\?#@[]&=.%+ ", r) {
			if cur != "" {
				out = append(out, cur)
				cur = ""
			}
			out = append(out, string(r))
		} else {
			cur += string(r)
		}
	}
	if cur != "" {
		out = append(out, cur)
	}
	if len(out) > 40 {
		out = out[:40]
	}
	return out
}

var gSchemesSpecial = []string{"http", "https", "ws", "wss", "ftp", "file"}
var gSchemes = []string{"http", "https", "ws", "wss", "ftp", "file", "foo", "data", "mailto", "a+b.c-d", "HTTP", "javascript", "File", "wS", "non-special", "sc", "h2", "gopher", "about", "blob"}
var gBadSchemes = []string{"", "1a", "a b", "http:", "htt\tp", "fi le", "file:x", "h:ttp", ":", "é", "a_b", "+a", "a\x00", "http\xff", "ws:80",
	// code points whose simple case mappings land on ASCII letters (U+0130 -> i, U+212A -> k, U+017F -> S, U+0131 -> I)
	"F\u0130LE", "s\u212a", "w\u017f", "f\u0131le", "\u212a", "HTTP\u017f", "ws\u212a"}
var gHostsASCII = []string{"example.com", "EXAMPLE.com", "1.2.3.4", "0x7f.1", "[::1]", "[1:2:3:4:5:6:7:8]", "[::1.2.3.4]", "localhost", "LocalHost", "a.b.c", "h", "", "ex%41mple.org", "1.2.3", "999", "0.0.0.0", "x_y", "h.", "h..", "0", "00", "0x", "0X1", "08", "09", "4294967295", "4294967296", "1.2.3.256", "256.1", "1..2", "1.2.", "a.1.", "a..", ".", "..", "!$&'()*+,;=", "a~b", "A-Z.", "[::]", "[::ffff:1.2.3.4]", "[0:0:0:1:0:0:0:0]", "[1:0:0:2:0:0:0:3]", "[2001:DB8::1]", "[0:0:0:0:0:0:0:0]", "[1::]", "[::1:0:0:0:0]", "[ffff:ffff:ffff:ffff:ffff:ffff:ffff:ffff]", "[2a02:a03f:6a3c:12b0:f1c3:9a2b:7c4d:e5f6]", "[ffff:ffff:ffff:ffff:ffff:ffff:255.255.255.255]", "[1000:2000:3000:4000:5000:6000:7000:8000]", "[FFFF:0:FFFF:0:FFFF:0:FFFF:0]", "192.168.0.1", "0300.0250.0.1", "127.1", "1.2.3.4.", "www.example.com", "a-b.c", "h1", "127.0.0.1", "0x7f000001", "10.0.0.1", "255.255.255.255", "%6c%6F%63alhost", "%31.2.3.4", "a%2eb"}
var gHostsBad = []string{"a b", "a:b", "%00", "[", "a]", "[::g]", "-1", "1.-2", "0x+f", "[[::1]]", "[::1]]", "[::1", "1.2.3.4.5", "0x100000000", "h/p", "h?q", "h#f", "h\\x", "u@h", "%", "%zz", "a%2Fb", "a%25b", "h\t", "\nh", " h", "h ", "a<b", "a^b", "a|b", "[1::2::3]", "[1:2:3:4:5:6:7]", "0.0x.0", "1.0x1g", "\x00", "\x7f", "h\x80", "[::1.2.3]", "[::1.2.3.4.5]", "[::01.2.3.4]", "[1:2:3:4:5:6:7:8:9]", "[:1]", "[1:]", "[12345::]", "[::1.2.3.256]", "[]", "a..b", "a`b", "a{b}", "a\"b", "%5B::1%5D", "1.2.3.4x", "x.0x", "x.1e3", "+1", "1.+2", "9672950000000000000a", "99999999999999999999x", "0x10000000000000000g", "07777777777777777777778", "1.99999999999999999999z", "18446744073709551616", "0x7fffffffffffffff", "9223372036854775808"}
var gHostsIDNA = []string{"é.com", "xn--a", "XN--nxasmq6b.com", "www.xn--x.com", "xn--nxasmq6b", "a≠b", "Ｅｘａｍｐｌｅ.com", "faß.de", "a\u00adb.com", "\u200d.x", "xn--", "日本語.jp", "a≮b", "%C3%A9.com", "a\U0001F600b"}
var gPorts = []string{"", "0", "80", "443", "21", "8080", "65535", "65536", "1", "81", "444", "22", "00080", "000", "65534", "8"}
var gPortsBad = []string{"x", "8x", " 9", "-1", "+8", "8/9", "8?x", "8#", "8\\", "99999999999999999999", "\t8", "8\n0", "00000000000000000080", "1e3", "8:9", "0x50", "８", "\x00", "\xff", "8 "}
var gPaths = []string{"", "/", "/a", "/a/b", "/a/../b", "/./a", "//x", "/.//x", "/a b", "/%2e%2E/x", "/C:/x", "/C|/x", "C|", "/a?b", "/a#b", "\\x\\y", "/a%zz", "/é", "/\x00", "a", "..", ".", "/a/", "  ", "/ ", "/..", "/../..", "a/./b/", "/%2E", "/.%2e/", "C:", "/C:", "c|/", "/a\tb", "?", "#", "/{}`\"<>^|", "/\xff", "//", "///", "/.", "/a/.", "/a/..", "\\", "/\\", "/a/b/c/d", "/C|", "/c:/../..", "/C|/../x", "//C|/x", "/a//b", "/a/b/../../..", "/%2e/%2e%2e", "x y", "/x  ", "a  ", "/:@", "/;=", "/a%20b", "/%", "/%4", "/~", "/*",
	// segment-count boundaries
	"/1/2/3/4/5/6/7", "/1/2/3/4/5/6/7/8", "/1/2/3/4/5/6/7/8/9", "/a/b/c/d/e/f/g/h/i/j/k/l/m/n/o/p", "/a/b/c/d/e/f/g/h/i/j/k/l/m/n/o/p/q",
	"/a/b/c/../../../../x", "/a/./b/./c/./d/./e/.", "/0/1/2/3/4/5/6/7/8/9/10/11/12/13/14/15/16/17/18/19/20/21/22/23/24/25/26/27/28/29/30/31/32",
	"/a/b/c/d/../../../../../../e", "/..//../", "/a/%2e%2e/%2e%2e/%2e%2e/b"}
var gQueries = []string{"", "?", "a=1", "?a=1&b=2", "a=1&a=2", "a b=c+d", "%26=%3D", "a&&b", "=x", "a='", "x=#y", "é=ü", "a=%zz", "+", "a=1%2B1", " ", "a  ", "??", "?#", "\t", "a\nb", "\"<>`{}", "\x00", "\xff", "a", "a=", "=", "&", "&&", "a=b=c", "%41=%42", "a+b=c%20d", "a=%2", "%=%", "a=1&b", "x=%C3%A9", "x=%E2%82", "a%00=b", "b=2&a=1&b=1", "a=1&A=2", "k=v&k=v", "'", "a='&b", "q=a#b", "/?/", "a=1;b=2", "a=1&=&b=2", "=&=", "&=&", "=&a=1", "a=1&="}
var gFrags = []string{"", "#", "f", "#f g", "a`b", "é", "%", "x\ty", "  ", "##", "#?", "\"<>`{}", "\x00", "\xff", "a#b", "frag", " x", "x ", "%41", "%zz", "/?:@"}
var gUsers = []string{"", "u", "u:p", "a@b", "a:b:c", "é", "%", " ", "/?#", "%41", "\x00", "\xff", "[]\\^|`{}", "~!$&'()*+,;=", "user", "pw", ":", "@", "%zz", "a b", "u%40"}
var gOpaque = []string{"", "x", "text/plain,hi there", "a b", "x  ", "  ", "/..", "a/b", "é", "\x00", "%zz", "x?", "x#", "a@b.c", "blank", " ", "x \t ", "%20 ", "..", "x  y"}
var gNames = []string{"a", "b", "k", "", "a b", "é", "x", "a&b", "c=d", "e+f", "%41", "100%", "'", "#", "\x00", "z\xff", "ab", "~!*()", "/?:@", "[]", "\U0001F600", "A", "aa", "B", "a\x01", " ", "=", "&", "+", "%", "a=", "ä", "z", "0", "-", "_", "key", "a.b"}
var gVals = []string{"", "1", "v w", "é", "2", "c=d", "a&b", "1+1", "%2B", "%", "'", "#f", "\"<>", "b", "bc", "c", "\x00", "\xff", " ", "+", "&", "=", "%25", "10", "9", "v", "\U0001F600", "a\tb", "x\ny"}
var gHostile = []string{"\u0130", "\u212a", "\u017f", "\u0131", "\x00", "\x01", "\x1f", "\x7f", "\x80", "\xff", "\xfe\xff", "\xc3", "\xe2\x82", "%", "%%", "%a", "%zz", "%\xff", "\t", "\n", "\r", " ", "\u00a0", "\ufffd", "\ufeff", "\U0010ffff", "\ufdd0", "\u2028", "é", "\U0001F600", "\\", "^", "|", "`", "{", "}", "<", ">", "\"", "'", "@", ":", "/", "?", "#", "[", "]", "&", "=", "+", ";", ","}

type Gen struct {
	r       *RNG
	idna    int // weight of IDNA hosts (0 = never)
	hostile int // percent of strings that get hostile bytes spliced in
	long    bool
	// theme: when set, URL()/Ref() return a member of a small per-plan pool three times out of
	// four, so that the parties / tasks of one plan run related inputs through the same code paths
	themeURLs []string
	themeRefs []string
	// themeNames: parameter names / values come from a per-plan pool of three most of the time
	// (duplicates, "value already there", same name on several handles)
	themeNames bool
	poolNames  []string
	poolVals   []string
}

// setTheme draws the per-plan pools.
func (g *Gen) setTheme() {
	n := g.r.Range(2, 4)
	var us, rs []string
	kind := g.r.Intn(4)
	for i := 0; i < n; i++ {
		switch kind {
		case 0: // internationalised hosts
			us = append(us, g.pick(gSchemesSpecial[:5])+"://"+g.pick(gHostsIDNA)+g.pick(gPaths)+g.qf())
		case 1: // percent-encoding heavy
			us = append(us, g.pick(gSchemes)+"://"+g.pick(gHostsASCII)+"/"+g.pick([]string{"%zz", "%", "a%2", "%25%", "é%", "%41%zz"})+g.pick(gPaths)+"?"+g.pick([]string{"%", "%zz=%", "a=%2", "q=%25%"}))
		default:
			us = append(us, g.URL())
		}
		rs = append(rs, g.Ref())
	}
	g.themeURLs, g.themeRefs = us, rs
}

func newGen(r *RNG) *Gen {
	loadCorpus()
	return &Gen{r: r, idna: 1, hostile: 8}
}

func (g *Gen) pick(l []string) string { return l[g.r.Intn(len(l))] }

var gHostsFav = []string{"localhost", "LOCALHOST", "", "1.2.3.4", "[::1]", "example.com", "h"}

func (g *Gen) host() string {
	if g.r.Chance(1, 8) {
		return g.pick(gHostsFav) // hosts with special treatment somewhere in the standard
	}
	switch k := g.r.Intn(20); {
	case k < 12:
		return g.pick(gHostsASCII)
	case k < 16:
		return g.pick(gHostsBad)
	case k < 17:
		if g.idna > 0 {
			return g.pick(gHostsIDNA)
		}
		return g.pick(gHostsASCII)
	case k < 19 && g.idna > 2:
		return g.pick(gHostsIDNA)
	case k < 18:
		// dotted number soup
		n := g.r.Range(1, 5)
		var p []string
		for i := 0; i < n; i++ {
			p = append(p, g.pick([]string{"0", "1", "255", "256", "0x10", "010", "0xff", "65535", "16777215", "a", "", "0x", "4294967295", "09", "1e1"}))
		}
		return strings.Join(p, ".")
	case k < 19:
		// ipv6 soup
		n := g.r.Range(0, 9)
		var p []string
		for i := 0; i < n; i++ {
			p = append(p, g.pick([]string{"0", "1", "ffff", "", "abcd", "0000", "12345", "g", "1.2.3.4", "00"}))
		}
		return "[" + strings.Join(p, ":") + "]"
	}
	return g.mutate(g.pick(gHostsASCII))
}

func (g *Gen) port() string {
	if g.r.Chance(3, 4) {
		return g.pick(gPorts)
	}
	return g.pick(gPortsBad)
}

func (g *Gen) userinfo() string { return g.pick(gUsers) }

// mutate splices hostile bytes / delimiters into s.
func (g *Gen) mutate(s string) string {
	n := g.r.Range(1, 2)
	for i := 0; i < n; i++ {
		h := g.pick(gHostile)
		pos := 0
		if len(s) > 0 {
			pos = g.r.Intn(len(s) + 1)
		}
		switch g.r.Intn(3) {
		case 0:
			s = s[:pos] + h + s[pos:]
		case 1:
			if pos < len(s) {
				s = s[:pos] + h + s[pos+1:]
			} else {
				s += h
			}
		case 2:
			if pos < len(s) {
				s = s[:pos] + s[pos+1:]
			}
		}
	}
	return s
}

func (g *Gen) maybeMut(s string) string {
	if g.r.Intn(100) < g.hostile {
		s = g.mutate(s)
	}
	if g.long && g.r.Intn(200) == 0 {
		unit := g.pick([]string{"a", "/", "@", "%25", "%", ".", "/..", "&a=b", ":", "é", "\xff", " ", "[", "0", "%2525"})
		s += strings.Repeat(unit, g.r.Range(64, 1024)/len(unit))
	}
	return s
}

func (g *Gen) qf() string {
	o := ""
	if g.r.Chance(1, 2) {
		o += "?" + strings.TrimPrefix(g.pick(gQueries), "?")
	}
	if g.r.Chance(1, 3) {
		o += "#" + strings.TrimPrefix(g.pick(gFrags), "#")
	}
	return o
}

func (g *Gen) authority() string {
	a := ""
	if g.r.Chance(1, 3) {
		a = g.userinfo() + "@"
	}
	a += g.host()
	if g.r.Chance(1, 3) {
		a += ":" + g.port()
	}
	return a
}

// URL returns an absolute-looking URL string (it may well be invalid).
func (g *Gen) URL() string {
	if len(g.themeURLs) > 0 && g.r.Chance(3, 4) {
		return g.pick(g.themeURLs)
	}
	var s string
	switch k := g.r.Intn(32); {
	case k < 10: // special with authority
		s = g.pick(gSchemesSpecial[:5]) + "://" + g.authority() + g.pick(gPaths) + g.qf()
	case k < 13: // file
		switch g.r.Intn(5) {
		case 0:
			s = "file:///" + strings.TrimPrefix(g.pick(gPaths), "/") + g.qf()
		case 1:
			s = "file://" + g.host() + g.pick(gPaths) + g.qf()
		case 2:
			s = "file:" + g.pick(gPaths) + g.qf()
		case 3:
			s = "file:" + g.pick([]string{"", "/", "//", "///", "\\\\", "/\\", "////"}) + g.pick([]string{"C:", "C|", "c:/x", "C|/x/..", "", "x", "C:/..", "localhost/C|"}) + g.qf()
		default:
			s = "file://" + g.pick([]string{"", "localhost", "LOCALHOST", "h", "loc%61lhost"}) + g.pick(gPaths) + g.qf()
		}
	case k < 15: // special with odd slashes
		s = g.pick(gSchemesSpecial) + g.pick([]string{":", ":/", ":\\", ":\\\\", ":///", ":/\\", "://///"}) + g.authority() + g.pick(gPaths) + g.qf()
	case k < 19: // non-special with authority
		s = g.pick(gSchemes[6:]) + "://" + g.authority() + g.pick(gPaths) + g.qf()
	case k < 21: // non-special, path only
		s = g.pick(gSchemes[6:]) + ":" + g.pick(gPaths) + g.qf()
	case k < 24: // opaque
		s = g.pick(gSchemes[6:]) + ":" + g.pick(gOpaque) + g.qf()
	case k < 27:
		s = g.pick(corpusInputs)
	case k < 29:
		s = g.pick(corpusHrefs)
	case k < 30: // any scheme incl. bad
		s = g.pick(append(gSchemes, gBadSchemes...)) + ":" + g.pick([]string{"", "/", "//"}) + g.authority() + g.pick(gPaths) + g.qf()
	default: // token soup
		n := g.r.Range(1, 8)
		var sb strings.Builder
		if g.r.Chance(2, 3) {
			sb.WriteString(g.pick(gSchemes))
			sb.WriteString(g.pick([]string{":", "://", ":/", ":\\\\", "", ":///"}))
		}
		for i := 0; i < n; i++ {
			if g.r.Chance(1, 2) {
				sb.WriteString(g.pick(corpusTokens))
			} else {
				sb.WriteString(g.pick(gHostile))
			}
		}
		s = sb.String()
	}
	if g.r.Chance(1, 12) {
		s = g.pick([]string{" ", "\t", "\n", "\x00", " \x1f"}) + s
	}
	if g.r.Chance(1, 12) {
		s += g.pick([]string{" ", "\t", "\n", "\x00", "  "})
	}
	return g.maybeMut(s)
}

// Ref returns a reference to be resolved against a base.
func (g *Gen) Ref() string {
	if len(g.themeRefs) > 0 && g.r.Chance(3, 4) {
		return g.pick(g.themeRefs)
	}
	var s string
	switch k := g.r.Intn(24); {
	case k < 1:
		s = ""
	case k < 3:
		s = "#" + g.pick(gFrags)
	case k < 5:
		s = "?" + g.pick(gQueries)
	case k < 9:
		s = g.pick(gPaths) + g.qf()
	case k < 11:
		s = "//" + g.authority() + g.pick(gPaths) + g.qf()
	case k < 13:
		s = g.pick([]string{"..", "../", "../..", "./", ".", "../x", "./../y", "%2e%2e/z", "a/../b", "..\\w", "/..", "/.//a"}) + g.qf()
	case k < 15:
		s = g.pick([]string{"C:", "C|", "/C:", "/C|/x", "c:/y", "\\C|\\", "//C|/z", "C|?q", "C|#f"})
	case k < 17:
		s = g.pick(gSchemesSpecial) + ":" + g.pick([]string{"", "/", "x", "../y", "\\z", "//h/p", "?q", "#f"})
	case k < 19:
		s = g.pick(corpusInputs)
	case k < 20:
		s = g.pick([]string{"\\", "\\\\h\\p", "/\\h", "\\/h", "///x", "////", "/\\/\\"})
	default:
		s = g.URL()
	}
	return g.maybeMut(s)
}

// Base returns a string meant to parse as a base URL.
func (g *Gen) Base() string {
	if g.r.Chance(1, 40) {
		return "" // ParseRef with an empty base means "parse without base"
	}
	if g.r.Chance(1, 2) {
		return g.pick(corpusBases)
	}
	return g.URL()
}

// SetterValue draws a value for setter w (index into setterNames): valid for this component /
// valid for a neighbouring component / hostile / empty / from the WPT setter vectors.
var gPlain = []string{"a", "b", "name", "value", "x1", "O'Brien", "utm_source", "newsletter", "k", "v", "-", ".", "_", "~", "!", "*", "(", ")", "'", "&", "=", ";", ",", "$", "+", ":", "@", "/", "1", "42", "A", "Z"}

// longClean builds a value of typical length classes (beyond 16/32/64/128/256 bytes) out of plain
// ASCII URL code points only: fast paths and size limits are keyed on length and on "nothing needs
// encoding", which dictionary entries of a few bytes with hostile bytes in them never satisfy.
func (g *Gen) longClean(w int) string {
	target := []int{17, 33, 40, 65, 100, 129, 257, 300}[g.r.Intn(8)]
	var sb strings.Builder
	switch w {
	case 7:
		sb.WriteString(g.pick([]string{"", "?"}))
	case 8:
		sb.WriteString(g.pick([]string{"", "#"}))
	case 6:
		sb.WriteString("/")
	}
	for sb.Len() < target {
		t := g.pick(gPlain)
		if (w == 3 || w == 4 || w == 0 || w == 5) && !(t[0] >= 'a' && t[0] <= 'z' || t[0] >= '0' && t[0] <= '9' || t == "." || t == "-") {
			continue
		}
		sb.WriteString(t)
	}
	return sb.String()
}

// hugeValue: lengths just beyond the limits people hard-code (2 KiB, 4 KiB, 8 KiB, 64 KiB, 1 MiB).
func (g *Gen) hugeValue(w int) (string, bool) {
	if w < 6 {
		// only pathname, search and hash: re-parsing a URL with a 1 MiB username takes 80 s (the
		// quadratic credential handling is C20's business), hosts and schemes are similar
		return "", false
	}
	k := g.r.Intn(400_000)
	n := 0
	switch {
	case k < 20:
		n = []int{2049, 4097, 8193}[g.r.Intn(3)]
	case k < 24:
		n = 65537
	case k < 28:
		n = 1<<20 + 1 + g.r.Intn(64)
	default:
		return "", false
	}
	// one long run of a plain character: many segments or many parameters would hit the library's
	// quadratic serializers (C20's business) and take minutes
	return strings.Repeat("a", n), true
}

func (g *Gen) SetterValue(w int) string {
	if v, ok := g.hugeValue(w); ok {
		return v
	}
	if g.r.Chance(1, 16) {
		return g.longClean(w)
	}
	if g.r.Chance(1, 6) && len(corpusSetVals[w]) > 0 {
		return g.pick(corpusSetVals[w])
	}
	if g.r.Chance(1, 14) {
		return ""
	}
	var s string
	neighbour := g.r.Chance(1, 6)
	if neighbour {
		w2 := g.r.Intn(9)
		s = g.validFor(w2)
		switch g.r.Intn(4) {
		case 0: // own valid value followed by a neighbouring component's delimiter + value
			s = g.validFor(w) + g.pick([]string{":", "/", "?", "#", "@", "\\", " ", ":8", "/p", "?q", "#f"}) + s
		}
	} else {
		s = g.validFor(w)
	}
	return g.maybeMut(s)
}

func (g *Gen) validFor(w int) string {
	switch w {
	case 0:
		if g.r.Chance(1, 5) {
			return g.pick(gBadSchemes)
		}
		s := g.pick(gSchemes)
		if g.r.Chance(1, 4) {
			s += ":"
		}
		if g.r.Chance(1, 10) {
			s += "//x"
		}
		return s
	case 1, 2:
		return g.userinfo()
	case 3:
		h := g.host()
		if g.r.Chance(1, 2) {
			h += ":" + g.port()
		}
		if g.r.Chance(1, 8) {
			h += g.pick([]string{"/p", "?q", "#f", "\\x", "/", ":"})
		}
		return h
	case 4:
		h := g.host()
		if g.r.Chance(1, 8) {
			h += g.pick([]string{"/p", "?q", "#f", "\\x", ":81", ":"})
		}
		return h
	case 5:
		return g.port()
	case 6:
		return g.pick(gPaths)
	case 7:
		q := g.pick(gQueries)
		if g.r.Chance(1, 4) && !strings.HasPrefix(q, "?") {
			q = "?" + q
		}
		return q
	default:
		f := g.pick(gFrags)
		if g.r.Chance(1, 4) && !strings.HasPrefix(f, "#") {
			f = "#" + f
		}
		return f
	}
}

func (g *Gen) Name() string {
	if g.themeNames && g.r.Chance(2, 3) {
		if len(g.poolNames) < 3 {
			g.poolNames = append(g.poolNames, g.maybeMutSmall(g.pick(gNames)))
		}
		return g.pick(g.poolNames)
	}
	return g.maybeMutSmall(g.pick(gNames))
}

func (g *Gen) Value() string {
	if g.themeNames && g.r.Chance(1, 2) {
		if len(g.poolVals) < 3 {
			g.poolVals = append(g.poolVals, g.maybeMutSmall(g.pick(gVals)))
		}
		return g.pick(g.poolVals)
	}
	return g.maybeMutSmall(g.pick(gVals))
}

func (g *Gen) maybeMutSmall(s string) string {
	if g.r.Intn(100) < g.hostile/2 {
		return g.mutate(s)
	}
	return s
}

// Query draws a query string (without the leading '?').
func (g *Gen) Query() string {
	if g.r.Chance(1, 2) {
		return strings.TrimPrefix(g.pick(gQueries), "?")
	}
	n := g.r.Range(0, 5)
	if g.r.Chance(1, 12) {
		n = g.r.Range(9, 20) // beyond insertion-sort thresholds and slice growth boundaries
	}
	var parts []string
	for i := 0; i < n; i++ {
		p := g.encodeish(g.pick(gNames))
		switch g.r.Intn(6) {
		case 0:
		case 1:
			p += "="
		default:
			p += "=" + g.encodeish(g.pick(gVals))
		}
		parts = append(parts, p)
	}
	sep := "&"
	if g.r.Chance(1, 8) {
		sep = "&&"
	}
	return strings.Join(parts, sep)
}

// encodeish writes s the way a query author might: raw, form-encoded, or partially escaped.
func (g *Gen) encodeish(s string) string {
	switch g.r.Intn(4) {
	case 0:
		return s
	case 1:
		var sb strings.Builder
		for i := 0; i < len(s); i++ {
			c := s[i]
			switch {
			case c == ' ':
				sb.WriteByte('+')
			case c >= '0' && c <= '9' || c >= 'a' && c <= 'z' || c >= 'A' && c <= 'Z' || c == '-' || c == '_' || c == '.' || c == '*':
				sb.WriteByte(c)
			default:
				sb.WriteByte('%')
				sb.WriteByte("0123456789ABCDEF"[c>>4])
				sb.WriteByte("0123456789abcdef"[c&15])
			}
		}
		return sb.String()
	default:
		var sb strings.Builder
		for i := 0; i < len(s); i++ {
			c := s[i]
			if c == '&' || c == '#' || g.r.Chance(1, 4) {
				sb.WriteByte('%')
				sb.WriteByte("0123456789ABCDEF"[c>>4])
				sb.WriteByte("0123456789ABCDEF"[c&15])
			} else {
				sb.WriteByte(c)
			}
		}
		return sb.String()
	}
}
