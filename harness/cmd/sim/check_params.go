package main

import (
	"fmt"
	"sort"
	"strings"
	"unicode/utf16"

	"github.com/nlnwa/whatwg-url/url"

	"verif/harness/model"
)

// ---------------------------------------------------------------- C11

// The list model lives per URL (a second handle for the same URL is an alias of the same list).
type c11Checker struct {
	ml     map[int][]Pair // URL id -> model list
	names  map[string]bool
	cloned map[int]bool // copies whose list has not been looked at yet
}

func utf16Less(a, b string) bool {
	x, y := utf16.Encode([]rune(a)), utf16.Encode([]rune(b))
	for i := 0; i < len(x) && i < len(y); i++ {
		if x[i] != y[i] {
			return x[i] < y[i]
		}
	}
	return len(x) < len(y)
}

// sortCandidates returns the orders the statement admits: stable by name (abs=false) or by
// name+value (abs=true; concatenation or tuple), each under byte order, byte order of the scalar
// value strings, and UTF-16 code unit order (the standard's).
func sortCandidates(l []Pair, abs bool) [][]Pair {
	type less func(a, b string) bool
	orders := []less{
		func(a, b string) bool { return a < b },
		func(a, b string) bool { return scalar(a) < scalar(b) },
		func(a, b string) bool { return utf16Less(scalar(a), scalar(b)) },
	}
	var out [][]Pair
	for _, lt := range orders {
		lt := lt
		if !abs {
			c := append([]Pair(nil), l...)
			sort.SliceStable(c, func(i, j int) bool { return lt(c[i].Name, c[j].Name) })
			out = append(out, c)
			continue
		}
		c := append([]Pair(nil), l...)
		sort.SliceStable(c, func(i, j int) bool { return lt(c[i].Name+c[i].Value, c[j].Name+c[j].Value) })
		out = append(out, c)
		d := append([]Pair(nil), l...)
		sort.SliceStable(d, func(i, j int) bool {
			if d[i].Name != d[j].Name {
				return lt(d[i].Name, d[j].Name)
			}
			return lt(d[i].Value, d[j].Value)
		})
		out = append(out, d)
	}
	return out
}

func applyListOp(l []Pair, op Op) []Pair {
	a, b := string(op.A), string(op.B)
	switch op.K {
	case "sp.append":
		return append(append([]Pair(nil), l...), Pair{Name: a, Value: b})
	case "sp.delete":
		var o []Pair
		for _, p := range l {
			if p.Name != a {
				o = append(o, p)
			}
		}
		return o
	case "sp.set":
		var o []Pair
		found := false
		for _, p := range l {
			if p.Name == a {
				if !found {
					found = true
					o = append(o, Pair{Name: a, Value: b})
				}
			} else {
				o = append(o, p)
			}
		}
		if !found {
			o = append(o, Pair{Name: a, Value: b})
		}
		return o
	case "sp.iter":
		o := append([]Pair(nil), l...)
		for i := range o {
			switch op.W {
			case 1:
				if o[i].Name == a {
					o[i].Value = b
				}
			case 2:
				o[i].Name += a
			}
		}
		return o
	}
	return l
}

func (c *c11Checker) After(w *World, ev *Event) []Failure {
	if c.ml == nil {
		c.ml = map[int][]Pair{}
		c.names = map[string]bool{"": true, "a": true, "fresh-name": true}
	}
	var fs []Failure
	note := func(n string) {
		if len(c.names) < 24 {
			c.names[n] = true
		}
	}
	// 1. advance the model
	switch {
	case ev.Created >= 0:
		c.ml[ev.Created] = model.ParseUrlencodedRaw(w.Cur[ev.Created].Query)
		if uh := w.U[ev.Created]; uh != nil && uh.Prov == "cloned" {
			if m, ok := c.ml[uh.From]; ok {
				// the list of a copy starts as a copy of the source's list; an implementation that lets
				// the copy parse its query afresh instead is accepted as well (c.cloned, below)
				c.ml[ev.Created] = append([]Pair(nil), m...)
				if c.cloned == nil {
					c.cloned = map[int]bool{}
				}
				c.cloned[ev.Created] = true
			}
		}
	case ev.Op.K == "set" && ev.Target >= 0 && ev.Op.W%9 == 7:
		c.ml[ev.Target] = model.ParseUrlencodedRaw(w.Cur[ev.Target].Query)
	case ev.TargetS >= 0 && ev.Mut:
		uid := w.S[ev.TargetS].Of
		note(string(ev.Op.A))
		switch ev.Op.K {
		case "sp.sort", "sp.sortabs":
			real := w.CurL[ev.TargetS]
			ok := false
			for _, cand := range sortCandidates(c.ml[uid], ev.Op.K == "sp.sortabs") {
				if pairsEqual(cand, real) {
					ok = true
					break
				}
			}
			if !ok {
				want := sortCandidates(c.ml[uid], ev.Op.K == "sp.sortabs")[0]
				fs = append(fs, fail("C11.list", "op", ev.Op.K, "before", pairsString(c.ml[uid]), "real", pairsString(real), "want", pairsString(want)))
			}
			c.ml[uid] = append([]Pair(nil), real...)
		default:
			c.ml[uid] = applyListOp(c.ml[uid], ev.Op)
		}
	}
	// 2. compare every handle with the model of its URL
	for _, sid := range w.sids() {
		sh := w.S[sid]
		real := w.CurL[sid]
		ml := c.ml[sh.Of]
		for _, p := range real {
			note(p.Name)
		}
		if c.cloned[sh.Of] {
			// first look at the list of a copy
			delete(c.cloned, sh.Of)
			if !pairsEqual(real, ml) && pairsEqual(real, model.ParseUrlencodedRaw(w.Cur[sh.Of].Query)) {
				c.ml[sh.Of] = append([]Pair(nil), real...)
				ml = c.ml[sh.Of]
			}
		}
		if !pairsEqual(real, ml) {
			clause := "C11.list"
			if w.U[sh.Of].QW == 0 {
				clause = "C11.codec.parse" // the list still is what initialisation from the query produced
			}
			fs = append(fs, fail(clause, "handle", fmt.Sprintf("s%d", sid), "op", ev.Op.String(), "query", q(w.Cur[sh.Of].Query), "real", pairsString(real), "want", pairsString(ml)))
			c.ml[sh.Of] = append([]Pair(nil), real...) // continue from the real state
			ml = c.ml[sh.Of]
		}
		// read operations agree with the list
		var names []string
		for n := range c.names {
			names = append(names, n)
		}
		sort.Strings(names)
		// what a read returned stays what it was: the caller keeps the slice while it goes on reading
		var heldG, heldCopy []string
		heldName := ""
		for _, n := range names {
			var all []string
			for _, p := range real {
				if p.Name == n {
					all = append(all, p.Value)
				}
			}
			g := sh.SP.GetAll(n)
			if heldG != nil && strings.Join(heldG, "\x01") != strings.Join(heldCopy, "\x01") {
				fs = append(fs, fail("C11.read", "handle", fmt.Sprintf("s%d", sid), "name", q(heldName), "list", pairsString(real), "why", "the slice GetAll returned for this name was overwritten by a later GetAll("+q(n)+")", "was", fmt.Sprintf("%q", heldCopy), "now", fmt.Sprintf("%q", heldG)))
				break
			}
			if len(g) > 0 {
				heldG, heldCopy, heldName = g, append([]string(nil), g...), n
			}
			first := ""
			if len(all) > 0 {
				first = all[0]
			}
			if strings.Join(g, "\x01") != strings.Join(all, "\x01") || len(g) != len(all) || sh.SP.Has(n) != (len(all) > 0) || sh.SP.Get(n) != first {
				fs = append(fs, fail("C11.read", "handle", fmt.Sprintf("s%d", sid), "name", q(n), "list", pairsString(real), "getall", fmt.Sprintf("%q", g), "get", q(sh.SP.Get(n)), "has", fmt.Sprint(sh.SP.Has(n))))
				break
			}
		}
		// codec: serialize, then parse per the standard, gives the same list
		if ev.Mut || ev.CreatedS == sid {
			ser := sh.SP.String()
			back := model.ParseUrlencodedRaw(ser)
			if !pairsEqual(back, real) {
				// For the known-finding predicate: is the deviation exactly what leaving '%' unescaped
				// explains (every name/value comes back percent-decoded once, nothing else differs)?
				dec := make([]Pair, len(real))
				for i, p := range real {
					// the serializer first turns ill-formed bytes into U+FFFD, then leaves '%' alone
					dec[i] = Pair{Name: string(model.PercentDecode(scalar(p.Name))), Value: string(model.PercentDecode(scalar(p.Value)))}
				}
				fs = append(fs, fail("C11.codec.roundtrip", "handle", fmt.Sprintf("s%d", sid), "list", pairsString(real), "serialized", q(ser), "parsed-back", pairsString(back),
					"explained-by-unescaped-percent", fmt.Sprint(pairsEqual(back, dec))))
			} else if r, err := url.Parse(w.Cur[sh.Of].Href); err == nil && w.U[sh.Of].QW == 1 {
				// and through the whole URL: url.Parse(href).SearchParams()
				back2 := readListSynced(r.SearchParams())
				if !pairsEqual(back2, real) {
					fs = append(fs, fail("C11.codec.roundtrip-href", "handle", fmt.Sprintf("s%d", sid), "list", pairsString(real), "href", q(w.Cur[sh.Of].Href), "parsed-back", pairsString(back2), "pairs", pairsJoin(real)))
				}
			}
		}
	}
	return fs
}

// pairsJoin renders names and values raw, one per line, for known-finding predicates.
func pairsJoin(l []Pair) string {
	var sb strings.Builder
	for _, p := range l {
		sb.WriteString(p.Name)
		sb.WriteByte('\n')
		sb.WriteString(p.Value)
		sb.WriteByte('\n')
	}
	return sb.String()
}

// ---------------------------------------------------------------- C12

type c12Checker struct{}

// hrefEndsWithQuery: the serialization without fragment ends in "?"+s (for an empty s: in the
// pathname, with or without a bare "?"). Judged from the end, because under lax host parsing a host
// may itself contain '?'.
func hrefEndsWithQuery(o Obs, s string) bool {
	if s != "" {
		return strings.HasSuffix(o.HrefNF, "?"+s)
	}
	return strings.HasSuffix(o.HrefNF, o.Pathname) || strings.HasSuffix(o.HrefNF, o.Pathname+"?")
}

func queryOfHref(href string) string {
	if i := strings.IndexByte(href, '#'); i >= 0 {
		href = href[:i]
	}
	if i := strings.IndexByte(href, '?'); i >= 0 {
		return href[i+1:]
	}
	return ""
}

func (c *c12Checker) After(w *World, ev *Event) []Failure {
	var fs []Failure
	for _, id := range w.uids() {
		uh := w.U[id]
		if len(uh.SPs) == 0 {
			continue
		}
		o := w.Cur[id]
		for k, sid := range uh.SPs {
			sh := w.S[sid]
			kind := "current"
			if k < len(uh.SPs)-1 {
				kind = "earlier"
			}
			ctx := []string{"url", fmt.Sprintf("u%d", id), "handle", fmt.Sprintf("s%d(%s)", sid, kind), "href", q(o.Href), "after", ev.Op.String()}
			if uh.QW == 2 {
				continue // a kept pair was written to from outside any call: armed again by the next list operation
			}
			if uh.QW == 1 {
				s := sh.SP.String()
				if o.Query != s {
					fs = append(fs, fail("C12.sync.list->url", append(ctx, "what", "Query", "query", q(o.Query), "list", q(s))...))
				} else if !(o.Search == "?"+s && s != "" || o.Search == "" && s == "") {
					fs = append(fs, fail("C12.sync.list->url", append(ctx, "what", "Search", "search", q(o.Search), "list", q(s))...))
				} else if !hrefEndsWithQuery(o, s) {
					fs = append(fs, fail("C12.sync.list->url", append(ctx, "what", "Href", "list", q(s))...))
				}
			} else {
				// a fresh URL of the same scheme, parsed by the same parser (encoding override, special
				// schemes and encode sets are the configuration's)
				f, err := w.parse(o.Scheme + "://h/?" + o.Query)
				if err != nil || f == nil {
					continue
				}
				want := readListSynced(f.SearchParams())
				if o.Query == "" {
					want = nil
				}
				if got := w.CurL[sid]; !pairsEqual(got, want) {
					fs = append(fs, fail("C12.sync.url->list", append(ctx, "query", q(o.Query), "list", pairsString(got), "want", pairsString(want))...))
				}
			}
		}
	}
	return fs
}

// ---------------------------------------------------------------- C13

type c13Checker struct {
	twinSP  map[int]*url.SearchParams // parameter handle id -> twin's handle
	tried   map[int]bool
	dropped int
}

// ensureTwin gives URL id a twin: a pristine URL parsed from its current serialization, provided
// that such a URL is observationally identical (and its parameter list equals every handle's).
func (c *c13Checker) ensureTwin(w *World, id int) {
	uh := w.U[id]
	if uh.Twin != nil || c.tried[id] {
		return
	}
	c.tried[id] = true
	if cfg := uh.Cfg; cfg.Profile != "" || len(cfg.Opts) > 1 || (len(cfg.Opts) == 1 && cfg.Opts[0].N != "report") {
		return // the pristine twin is parsed by the default parser: only objects of a neutral parser have one
	}
	o := w.Cur[id]
	t, err := url.Parse(o.Href)
	if err != nil || t == nil || observe(t).Key() != o.Key() {
		return
	}
	if len(uh.SPs) > 0 {
		tsp := t.SearchParams()
		tl := readListSynced(tsp)
		for _, sid := range uh.SPs {
			if !pairsExact(tl, w.CurL[sid]) {
				c.dropped++
				return
			}
		}
		for _, sid := range uh.SPs {
			c.twinSP[sid] = tsp
		}
	}
	uh.Twin = &UH{U: t}
}

func (c *c13Checker) After(w *World, ev *Event) []Failure {
	if c.twinSP == nil {
		c.twinSP = map[int]*url.SearchParams{}
		c.tried = map[int]bool{}
	}
	var fs []Failure
	// isolation: every object other than the targeted one is unchanged
	// URLs that share a list at the caller's request are one object as far as isolation goes; they
	// have no pristine twin either
	same := func(id int) bool {
		return ev.Target >= 0 && w.Ent[id] != 0 && w.Ent[id] == w.Ent[ev.Target]
	}
	if ev.Op.K == "setsp" {
		if uh := w.U[ev.Target]; ev.Target >= 0 && uh != nil {
			uh.Twin = nil // the twin protocol has no counterpart for replacing the list
			c.tried[ev.Target] = true
		}
		for id, g := range w.Ent {
			if g != 0 && w.U[id] != nil {
				w.U[id].Twin = nil
				c.tried[id] = true
			}
		}
	}
	for _, id := range w.uids() {
		if id == ev.Target || id == ev.Created || same(id) {
			continue
		}
		p, ok := w.Prev[id]
		if !ok {
			continue
		}
		if cur := w.Cur[id]; p.Key() != cur.Key() || p.VE != cur.VE {
			f, a, b := diffPrimary(p.Primary(), cur.Primary())
			if f == "" && p.VE != cur.VE {
				f, a, b = "ValidationErrors", p.VE, cur.VE
			}
			if f == "" {
				f, a, b = "derived accessors", p.Key(), cur.Key()
			}
			fs = append(fs, fail("C13.isolation", "changed", fmt.Sprintf("u%d(%s of u%d)", id, w.U[id].Prov, w.U[id].From), "by", ev.Op.String(), "field", f, "before", q(a), "after", q(b)))
		}
	}
	for _, sid := range w.sids() {
		sh := w.S[sid]
		if sh.Of == ev.Target || sid == ev.CreatedS || same(sh.Of) {
			continue
		}
		p, ok := w.PrevL[sid]
		if !ok {
			continue
		}
		if !pairsEqual(p, w.CurL[sid]) || len(p) != len(w.CurL[sid]) {
			fs = append(fs, fail("C13.isolation", "changed", fmt.Sprintf("s%d(params of u%d)", sid, sh.Of), "by", ev.Op.String(), "before", pairsString(p), "after", pairsString(w.CurL[sid])))
		}
	}
	// reflects: an object on either side of a derivation behaves like a pristine URL with the same
	// serialization (twin), operation by operation
	if ev.Created >= 0 {
		uh := w.U[ev.Created]
		if uh.Prov == "resolved" || uh.Prov == "cloned" {
			c.ensureTwin(w, ev.Created)
			if uh.From >= 0 && w.U[uh.From] != nil {
				c.ensureTwin(w, uh.From)
			}
		}
		return fs
	}
	if ev.CreatedS >= 0 {
		sh := w.S[ev.CreatedS]
		if uh := w.U[sh.Of]; uh != nil && uh.Twin != nil {
			tsp := uh.Twin.U.SearchParams()
			if !pairsExact(readListSynced(tsp), w.CurL[ev.CreatedS]) {
				// the object's list is not the parse of its query (e.g. cloned from a list-written state
				// whose codec does not round-trip: C11's business): no twin from here on
				uh.Twin = nil
				c.dropped++
			} else {
				c.twinSP[ev.CreatedS] = tsp
			}
		}
		return fs
	}
	if ev.Target >= 0 && ev.Mut {
		uh := w.U[ev.Target]
		if uh.Twin == nil {
			return fs
		}
		switch {
		case ev.Op.K == "set":
			applySetter(uh.Twin.U, ev.Op.W%9, ev.Val)
		case ev.TargetS >= 0:
			tsp := c.twinSP[ev.TargetS]
			if tsp == nil {
				uh.Twin = nil
				return fs
			}
			a, b := string(ev.Op.A), string(ev.Op.B)
			switch ev.Op.K {
			case "sp.append":
				tsp.Append(a, b)
			case "sp.delete":
				tsp.Delete(a)
			case "sp.set":
				tsp.Set(a, b)
			case "sp.sort":
				tsp.Sort()
			case "sp.sortabs":
				tsp.SortAbsolute()
			case "sp.iter":
				tsp.Iterate(func(p *url.NameValuePair) {
					switch ev.Op.W {
					case 1:
						if p.Name == a {
							p.Value = b
						}
					case 2:
						p.Name += a
					}
				})
			}
		}
		to, o := observe(uh.Twin.U), w.Cur[ev.Target]
		if to.Key() != o.Key() {
			f, a, b := diffPrimary(o.Primary(), to.Primary())
			if f == "" {
				f, a, b = "derived accessors", o.Key(), to.Key()
			}
			fs = append(fs, fail("C13.reflects", "object", fmt.Sprintf("u%d(%s of u%d)", ev.Target, uh.Prov, uh.From), "op", ev.Op.String(), "field", f, "derived", q(a), "pristine-twin", q(b)))
			uh.Twin = nil
			return fs
		}
		for _, sid := range uh.SPs {
			if tsp := c.twinSP[sid]; tsp != nil {
				if tl := readListSynced(tsp); !pairsEqual(tl, w.CurL[sid]) {
					fs = append(fs, fail("C13.reflects", "object", fmt.Sprintf("s%d(params of u%d, %s of u%d)", sid, ev.Target, uh.Prov, uh.From), "op", ev.Op.String(), "derived", pairsString(w.CurL[sid]), "pristine-twin", pairsString(tl)))
					uh.Twin = nil
					return fs
				}
			}
		}
	}
	return fs
}
