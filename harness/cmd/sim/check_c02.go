package main

import (
	"fmt"
	"strings"
)

// ---------------------------------------------------------------- C02: total API

type c02Checker struct{}

// Totality turns a panic / step-limit overrun / contract breach of the event into failures.
// The signature of a panic is its top library frame, not its message.
func (c *c02Checker) Totality(w *World, ev *Event, getterPanic string) []Failure {
	var fs []Failure
	ctx := []string{"op", ev.Op.String(), "config", w.Cfg.String()}
	if ev.Panic != "" {
		fs = append(fs, fail("C02.panic", append(ctx, "frame", ev.Panic, "msg", ev.PanicMsg)...))
	}
	if ev.Hang && ev.Blocked {
		where := "the operation itself"
		if ev.BlockedIn != "" {
			where = ev.BlockedIn
		}
		fs = append(fs, fail("C02.hang", append(ctx, "why", "blocked: the call did not return, executed no statement and used no CPU for "+blockPatience.String()+" - in a single-threaded history nobody exists who could release it (a lock taken twice, or held across a callback that re-enters)", "blocked-in", where)...))
	} else if ev.Hang {
		fs = append(fs, fail("C02.hang", append(ctx, "steps", fmt.Sprint(ev.Steps), "why", "statement budget 10^6+1000L+5L^2 exceeded")...))
	}
	if getterPanic != "" {
		p := strings.SplitN(getterPanic, ": ", 2)
		fs = append(fs, fail("C02.panic", append(ctx, "frame", p[0], "msg", getterPanic, "where", "getter after the operation")...))
	}
	if ev.Contract != "" {
		fs = append(fs, fail("C02.contract", append(ctx, "why", ev.Contract)...))
	}
	return fs
}

// After exercises every read accessor of every live object (a parse "yields a URL on which every
// getter works"); a panic in here is caught by the run loop and reported as C02.panic.
func (c *c02Checker) After(w *World, ev *Event) []Failure {
	for _, id := range w.uids() {
		u := w.U[id].U
		readGetters(u, 0)
		_ = u.String()
		for _, e := range u.ValidationErrors() {
			_ = e.Error()
		}
	}
	for _, sid := range w.sids() {
		sp := w.S[sid].SP
		_ = sp.String()
		_ = sp.Get("a")
		_ = sp.GetAll("a")
		_ = sp.Has("a")
	}
	return nil
}
