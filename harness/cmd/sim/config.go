package main

import (
	"strings"

	"golang.org/x/text/encoding/charmap"

	"github.com/nlnwa/whatwg-url/canonicalizer"
	"github.com/nlnwa/whatwg-url/url"
)

// Menus for parametrised options. Index i of an OptSpec selects menu[i % len(menu)].

func encodeSets() []*url.PercentEncodeSet {
	return []*url.PercentEncodeSet{
		url.C0PercentEncodeSet, url.C0OrSpacePercentEncodeSet, url.FragmentPercentEncodeSet,
		url.QueryPercentEncodeSet, url.SpecialQueryPercentEncodeSet, url.PathPercentEncodeSet,
		url.UserInfoPercentEncodeSet, url.HostPercentEncodeSet,
		canonicalizer.LaxPathPercentEncodeSet, canonicalizer.LaxQueryPercentEncodeSet,
		canonicalizer.RepeatedQueryPercentDecodeSet,
	}
}

var encodeSetNames = []string{"C0", "C0OrSpace", "Fragment", "Query", "SpecialQuery", "Path", "UserInfo", "Host", "LaxPath", "LaxQuery", "RepeatedQueryDecode", "Path+%", "Empty"}

// derived sets are built once per process from the named ones (deriving must copy: C10/C14)
var derivedSets []*url.PercentEncodeSet

func setMenu() []*url.PercentEncodeSet {
	if derivedSets == nil {
		derivedSets = append(encodeSets(), url.PathPercentEncodeSet.Set('%'), url.NewPercentEncodeSet(0))
	}
	return derivedSets
}

var charmaps = []*charmap.Charmap{charmap.ISO8859_1, charmap.Windows1252, charmap.ISO8859_5, charmap.KOI8R, charmap.CodePage437}

func specialMaps() []map[string]string {
	return []map[string]string{
		{"ftp": "21", "file": "", "http": "80", "https": "443", "ws": "80", "wss": "443", "gopher": "70"},
		{},
		{"http": "80"},
		{"foo": "x", "file": ""},
		{"http": "8080", "https": "443", "ftp": "2121", "ws": "80", "file": ""}, // well-known schemes with other default ports
	}
}

// collapseDots replaces runs of dots by one dot (no regexp: its machine pools synchronise
// goroutines, which must not happen in harness code that runs on schedsim tasks).
func collapseDots(h string) string {
	for strings.Contains(h, "..") {
		h = strings.ReplaceAll(h, "..", ".")
	}
	return h
}

var preFuncs = []func(*url.Url, string) string{
	func(u *url.Url, h string) string { return h },
	func(u *url.Url, h string) string { return collapseDots(strings.Trim(h, ".")) },
	func(u *url.Url, h string) string { return "" },
	func(u *url.Url, h string) string { _ = u.Href(false); _ = u.Host(); return "[" + h },
	func(u *url.Url, h string) string { return strings.ToUpper(h) },
}

var postFuncs = []func(*url.Url, string) string{
	func(u *url.Url, h string) string { return h },
	func(u *url.Url, h string) string { return "" },
	func(u *url.Url, h string) string { return h + "\xff /" },
	func(u *url.Url, h string) string { _ = u.Pathname(); return strings.TrimPrefix(h, "www.") },
}

var defSchemes = []string{"http", "file", "foo", "", "https", "1", "//", "-x", "ht tp", "http ", ":", "HTTP", "http:", "a\x00"}

// optNames lists every public option (19 parser + 6 canonicalizer).
var optNames = []string{
	"report", "failOnVE", "lax", "collapse", "acceptInvalid", "singlePct", "allowPathNonBase",
	"skipDrive", "skipTrailing", "skipEquals", "enc", "pathSet", "querySet", "sQuerySet", "fragSet",
	"sFragSet", "special", "pre", "post",
	"rmUser", "rmPort", "rmFrag", "repeatDecode", "defScheme", "sort",
}

func optMenuLen(n string) int {
	switch n {
	case "enc":
		return len(charmaps)
	case "pathSet", "querySet", "sQuerySet", "fragSet", "sFragSet":
		return len(encodeSetNames)
	case "special":
		return 5
	case "pre":
		return len(preFuncs)
	case "post":
		return len(postFuncs)
	case "defScheme":
		return len(defSchemes)
	case "sort":
		return 3
	}
	return 1
}

func buildOption(o OptSpec) url.ParserOption {
	i := o.I
	sets := setMenu()
	switch o.N {
	case "report":
		return url.WithReportValidationErrors()
	case "failOnVE":
		return url.WithFailOnValidationError()
	case "lax":
		return url.WithLaxHostParsing()
	case "collapse":
		return url.WithCollapseConsecutiveSlashes()
	case "acceptInvalid":
		return url.WithAcceptInvalidCodepoints()
	case "singlePct":
		return url.WithPercentEncodeSinglePercentSign()
	case "allowPathNonBase":
		return url.WithAllowSettingPathForNonBaseUrl()
	case "skipDrive":
		return url.WithSkipWindowsDriveLetterNormalization()
	case "skipTrailing":
		return url.WithSkipTrailingSlashNormalization()
	case "skipEquals":
		return url.WithSkipEqualsForEmptySearchParamsValue()
	case "enc":
		return url.WithEncodingOverride(charmaps[i%len(charmaps)])
	case "pathSet":
		return url.WithPathPercentEncodeSet(sets[i%len(sets)])
	case "querySet":
		return url.WithQueryPercentEncodeSet(sets[i%len(sets)])
	case "sQuerySet":
		return url.WithSpecialQueryPercentEncodeSet(sets[i%len(sets)])
	case "fragSet":
		return url.WithFragmentPathPercentEncodeSet(sets[i%len(sets)])
	case "sFragSet":
		return url.WithSpecialFragmentPathPercentEncodeSet(sets[i%len(sets)])
	case "special":
		return url.WithSpecialSchemes(specialMaps()[i%5])
	case "pre":
		return url.WithPreParseHostFunc(preFuncs[i%len(preFuncs)])
	case "post":
		return url.WithPostParseHostFunc(postFuncs[i%len(postFuncs)])
	case "rmUser":
		return canonicalizer.WithRemoveUserInfo()
	case "rmPort":
		return canonicalizer.WithRemovePort()
	case "rmFrag":
		return canonicalizer.WithRemoveFragment()
	case "repeatDecode":
		return canonicalizer.WithRepeatedPercentDecoding()
	case "defScheme":
		return canonicalizer.WithDefaultScheme(defSchemes[i%len(defSchemes)])
	case "sort":
		switch i % 3 {
		case 0:
			return canonicalizer.WithSortQuery(canonicalizer.NoSort)
		case 1:
			return canonicalizer.WithSortQuery(canonicalizer.SortKeys)
		}
		return canonicalizer.WithSortQuery(canonicalizer.SortParameter)
	}
	return url.EmptyParserOption{}
}

// isCanonOpt: options that only canonicalizer.New understands.
func isCanonOpt(n string) bool {
	switch n {
	case "rmUser", "rmPort", "rmFrag", "repeatDecode", "defScheme", "sort":
		return true
	}
	return false
}

// buildParser constructs the url.Parser a Config denotes. The zero Config is the package-level
// default parser, represented by nil (callers then use url.Parse / url.ParseRef) unless
// forceValue is set.
func buildParser(c Config) url.Parser {
	switch c.Profile {
	case "WhatWg":
		return canonicalizer.WhatWg
	case "WhatWgSortQuery":
		return canonicalizer.WhatWgSortQuery
	case "GoogleSafeBrowsing":
		return canonicalizer.GoogleSafeBrowsing
	case "Semantic":
		return canonicalizer.Semantic
	}
	canon := false
	var opts []url.ParserOption
	for _, o := range c.Opts {
		if isCanonOpt(o.N) || o.N == "canon" {
			canon = true
		}
		if o.N == "canon" {
			continue
		}
		opts = append(opts, buildOption(o))
	}
	if canon {
		return canonicalizer.New(opts...)
	}
	return url.NewParser(opts...)
}

// genConfig draws a configuration: every subset of the options is reachable.
func genConfig(r *RNG, allowProfiles bool) Config {
	if allowProfiles {
		switch r.Intn(10) {
		case 0:
			return Config{Profile: "GoogleSafeBrowsing"}
		case 1:
			return Config{Profile: "Semantic"}
		case 2:
			if r.Chance(1, 2) {
				return Config{Profile: "WhatWgSortQuery"}
			}
			return Config{Profile: "WhatWg"}
		}
	}
	var c Config
	// swarm: option density varies per run
	den := []int{2, 4, 4, 8, 16}[r.Intn(5)]
	for _, n := range optNames {
		if r.Chance(1, den) {
			c.Opts = append(c.Opts, OptSpec{N: n, I: r.Intn(optMenuLen(n))})
		}
	}
	if r.Chance(1, 3) {
		c.Opts = append(c.Opts, OptSpec{N: "canon"})
	}
	return c
}
