package main

import (
	"encoding/json"
	"fmt"
	"strconv"
	"strings"
)

// QS is a string that is stored Go-quoted in JSON so that invalid UTF-8 and NUL survive.
type QS string

func (q QS) MarshalJSON() ([]byte, error) {
	return json.Marshal(strconv.QuoteToASCII(string(q)))
}

func (q *QS) UnmarshalJSON(b []byte) error {
	var s string
	if err := json.Unmarshal(b, &s); err != nil {
		return err
	}
	u, err := strconv.Unquote(s)
	if err != nil {
		return fmt.Errorf("bad quoted string %s: %v", s, err)
	}
	*q = QS(u)
	return nil
}

// Op is one event of a plan. Handles are symbolic: URL handles and parameter handles have separate
// id spaces; an op whose handle does not exist at execution time is skipped (ops are total).
type Op struct {
	K string `json:"k"`           // kind
	P int    `json:"p,omitempty"` // party performing it (descriptive)
	H int    `json:"h"`           // target handle id (URL id, or parameter-handle id for sp.* kinds)
	D int    `json:"d,omitempty"` // id of the handle this op creates (parse/resolve/clone/newurl/getsp)
	A QS     `json:"a,omitempty"`
	B QS     `json:"b,omitempty"`
	W int    `json:"w,omitempty"` // variant: setter index, resolve way, getter mask, ...
	F string `json:"f,omitempty"` // fault kind this op represents, if any (abort/observe/stale-handle/hostile-bytes)
	// V: value source for "set". "" = the literal A. "own" = the target's current getter for the
	// component being set (the setter is handed its own current value). "peer" = the same getter of
	// URL handle S. The value is resolved at execution time (a pure function of plan and code) and
	// recorded in the event; A is then a suffix appended to it (usually empty).
	V string `json:"v,omitempty"`
	S int    `json:"s,omitempty"`
}

func (o Op) String() string {
	switch o.K {
	case "set":
		switch o.V {
		case "own":
			return fmt.Sprintf("p%d u%d.Set%s(<its own current value>+%s)", o.P, o.H, setterNames[o.W%len(setterNames)], q(string(o.A)))
		case "peer":
			return fmt.Sprintf("p%d u%d.Set%s(<current value of u%d>+%s)", o.P, o.H, setterNames[o.W%len(setterNames)], o.S, q(string(o.A)))
		}
		return fmt.Sprintf("p%d u%d.Set%s(%s)", o.P, o.H, setterNames[o.W%len(setterNames)], q(string(o.A)))
	case "parse":
		if o.W == 2 {
			return fmt.Sprintf("p%d u%d=BasicParser(%s, nil, NewUrl(), NoState)", o.P, o.D, q(string(o.A)))
		}
		if o.W == 0 {
			return fmt.Sprintf("p%d u%d=Parse(%s)", o.P, o.D, q(string(o.A)))
		}
		return fmt.Sprintf("p%d u%d=ParseRef(%s,%s)", o.P, o.D, q(string(o.B)), q(string(o.A)))
	case "resolve":
		if o.V == "peerhref" {
			return fmt.Sprintf("p%d u%d=resolve[way%d](u%d,<serialization of u%d>+%s)", o.P, o.D, o.W, o.H, o.S, q(string(o.A)))
		}
		return fmt.Sprintf("p%d u%d=resolve[way%d](u%d,%s)", o.P, o.D, o.W, o.H, q(string(o.A)))
	case "clone":
		return fmt.Sprintf("p%d u%d=u%d.Clone()", o.P, o.D, o.H)
	case "setsp":
		r := fmt.Sprintf("p%d u%d.SetSearchParams(s%d)", o.P, o.H, o.W)
		if o.D != 0 {
			r += fmt.Sprintf("; s%d=u%d.SearchParams()", o.D, o.H)
		}
		return r
	case "sp.append":
		return fmt.Sprintf("p%d s%d.Append(%s,%s)", o.P, o.H, q(string(o.A)), q(string(o.B)))
	case "sp.set":
		return fmt.Sprintf("p%d s%d.Set(%s,%s)", o.P, o.H, q(string(o.A)), q(string(o.B)))
	case "sp.delete":
		return fmt.Sprintf("p%d s%d.Delete(%s)", o.P, o.H, q(string(o.A)))
	case "sp.sort":
		return fmt.Sprintf("p%d s%d.Sort()", o.P, o.H)
	case "sp.sortabs":
		return fmt.Sprintf("p%d s%d.SortAbsolute()", o.P, o.H)
	case "sp.poke":
		if o.B != "" {
			return fmt.Sprintf("p%d (pair #%d kept from an Iterate callback of s%d).Name += %s", o.P, o.W, o.H, q(string(o.B)))
		}
		return fmt.Sprintf("p%d (pair #%d kept from an Iterate callback of s%d).Value += %s", o.P, o.W, o.H, q(string(o.A)))
	case "sp.iter":
		cb := []string{"no-op", "if name==" + q(string(o.A)) + " {value=" + q(string(o.B)) + "}", "name+=" + q(string(o.A)),
			"reads s.Has(name), s.Get(name) of the same list", "reads s.String() of the same list", "reads Href() and Search() of the owning URL",
			"calls Clone() on the owning URL", "resolves the value against the owning URL", "reads s.GetAll(name) of the same list"}
		if o.W >= 0 && o.W < len(cb) {
			return fmt.Sprintf("p%d s%d.Iterate(callback: %s)", o.P, o.H, cb[o.W])
		}
	case "sp.clone":
		return fmt.Sprintf("p%d s%d=s%d.Clone()", o.P, o.D, o.H)
	case "getsp":
		return fmt.Sprintf("p%d s%d=u%d.SearchParams()", o.P, o.D, o.H)
	}
	s := fmt.Sprintf("p%d %s h%d", o.P, o.K, o.H)
	if o.D != 0 {
		s += fmt.Sprintf(" d%d", o.D)
	}
	if o.A != "" || o.B != "" {
		s += fmt.Sprintf(" (%s,%s)", q(string(o.A)), q(string(o.B)))
	}
	if o.W != 0 {
		s += fmt.Sprintf(" w%d", o.W)
	}
	return s
}

var setterNames = []string{"Protocol", "Username", "Password", "Host", "Hostname", "Port", "Pathname", "Search", "Hash"}

// OptSpec names one parser/canonicalizer option with a parameter index into that option's menu.
type OptSpec struct {
	N string `json:"n"`
	I int    `json:"i,omitempty"`
}

type Config struct {
	Profile string    `json:"profile,omitempty"` // predefined profile name, or "" for New(opts...)
	Opts    []OptSpec `json:"opts,omitempty"`
}

func (c Config) String() string {
	if c.Profile != "" {
		return c.Profile
	}
	var l []string
	for _, o := range c.Opts {
		l = append(l, fmt.Sprintf("%s/%d", o.N, o.I))
	}
	return "[" + strings.Join(l, ",") + "]"
}

// Quantum of a schedsim schedule: task T runs N statements (Kind 0), until its current
// operation ends (Kind 1), or to completion (Kind 2).
type Quantum struct {
	T    int   `json:"t"`
	N    int64 `json:"n,omitempty"`
	Kind int   `json:"kind,omitempty"`
}

// SharedSpec describes one shared object of a schedsim plan.
type SharedSpec struct {
	Kind string `json:"kind"` // "parser" | "url"
	Cfg  Config `json:"cfg,omitempty"`
	Pre  []Op   `json:"pre,omitempty"` // for urls: construction history (parse + setters + getsp), run before sharing
}

// FloodSpec: item i is a pure function of (Kind, Salt, i); items are pairwise distinct.
type FloodSpec struct {
	N    int    `json:"n"`
	Kind int    `json:"kind"` // 0 non-ASCII host, 1 ASCII host, 2 scheme, 3 path and query
	Salt uint64 `json:"salt"`
}

func floodItem(f *FloodSpec, i int) string {
	w := []byte{byte('a' + f.Salt%26), byte('a' + f.Salt/26%26), byte('a' + f.Salt/676%26)}
	for n := i; ; n /= 26 {
		w = append(w, byte('a'+n%26))
		if n < 26 {
			break
		}
	}
	switch f.Kind {
	case 0:
		return "http://" + string(w) + "\u00e9.example/"
	case 1:
		return "http://" + string(w) + ".example/"
	case 2:
		return string(w) + "://h/p"
	}
	return "http://h/" + string(w) + "?k=" + string(w)
}

type Plan struct {
	Prop string  `json:"prop"`
	Seed uint64  `json:"seed"`
	Run  int     `json:"run"`
	Cfg  Config  `json:"cfg"`
	Cfg2 *Config `json:"cfg2,omitempty"` // a second parser: resolve way 3 is Parser2.BasicParser(ref, base, nil, NoState) on a base the first parser made (and vice versa)
	Ops  []Op    `json:"ops,omitempty"`
	Note string  `json:"note,omitempty"`
	// schedsim
	Parsers    []Config  `json:"parsers,omitempty"`
	Shared     [][]Op    `json:"shared,omitempty"` // construction history of each shared URL (handle 0 of its own little world)
	SharedP    []int     `json:"shared_parser,omitempty"`
	Tasks      [][]Op    `json:"tasks,omitempty"`
	Schedule   []Quantum `json:"schedule,omitempty"`
	Strategy   string    `json:"strategy,omitempty"`
	Order      string    `json:"order,omitempty"`                     // "" = run-alone reference first; "concurrent-first" = scheduled run first (process-wide state still cold), reference afterwards
	Procs      int       `json:"gomaxprocs,omitempty"`                // GOMAXPROCS for this plan: with one P every goroutine shares the same sync.Pool slots (maximal reuse), with many they rarely meet
	Flood      *FloodSpec `json:"flood,omitempty"`                     // N distinct inputs parsed one after the other through parser 0 before anything is shared or scheduled (fills whatever the library caches, up to and beyond its capacity)
	ParkInCrit bool      `json:"park_in_critical_sections,omitempty"` // allow preemption lexically inside Lock()...Unlock() (risks deadlock, see verifrt.Crit)
	FpEvery    bool      `json:"fp_every_switch,omitempty"`
}

// Replay is what is written to /verif/replays/<id>/...json.
type Replay struct {
	Property string            `json:"property"`
	Clause   string            `json:"clause"`
	Step     int               `json:"step"`
	Witness  map[string]string `json:"witness"`
	Trace    []string          `json:"trace"` // human-readable rendering of the minimised plan
	Plan     Plan              `json:"plan"`
	// Prelude: the violation depends on state the library carried over from earlier runs of the same
	// worker process; replay re-executes runs Offset, Offset+Stride, ... < Upto (regenerated from Seed)
	// before the plan.
	Prelude  *Prelude `json:"prelude,omitempty"`
	Original struct {
		Seed uint64 `json:"seed"`
		Run  int    `json:"run"`
		Ops  int    `json:"ops"`
	} `json:"original"`
}

type Prelude struct {
	Seed   uint64 `json:"seed"`
	Offset int    `json:"offset"`
	Stride int    `json:"stride"`
	Upto   int    `json:"upto"`
}
