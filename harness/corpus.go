// Package harness only carries the embedded WPT snapshots.
package harness

import _ "embed"

//go:embed testdata/urltestdata.json
var URLTestData []byte

//go:embed testdata/setters_tests.json
var SettersTests []byte
