// Package verifrt is the runtime side of the yield points that /verif/instrument inserts before
// every statement of the library (in a scratch copy only; nothing of this exists in /repo).
//
// Mode 0: a yield is one predictable branch.
// Mode 1: single-threaded step counting (worldsim, twin runs): Count/Limit give a deterministic,
//
//	clock-free hang detector, Hits a per-site coverage bitmap.
//
// Mode 2: scheduled (schedsim): the calling goroutine is a Task; it runs only while it owns the
//
//	baton. Every hand-off is bracketed by RaceDisable/RaceEnable and lives in go:norace
//	functions, so the race runtime records no happens-before edge for the simulator's own
//	channels: tasks execute strictly one at a time in an order that is a pure function of the
//	plan, yet ThreadSanitizer sees them as mutually unordered.
package verifrt

import "runtime"

// Quantum kinds.
const (
	KStmts   = 0 // run Budget statements, then park
	KOpEnd   = 1 // run until the current operation ends
	KTaskEnd = 2 // run until the task ends
	KSync    = 3 // run until the Budget-th statement that uses a synchronisation primitive (park before it), or the task ends
)

// Events a task sends to the scheduler.
const (
	EvYield  = 0
	EvOpEnd  = 1
	EvFinish = 2
)

type Task struct {
	ID       int
	Resume   chan struct{}
	Ev       chan int // events of this task to the scheduler (one channel per task: a task that was blocked inside the library may come back at any time)
	GID      int64    // goroutine id (only used while some task is detached)
	Detached bool     // the scheduler gave up waiting: the task is blocked inside the library on a primitive the simulator does not own
	Kind     int
	Budget   int64
	Steps    int64 // statements executed so far by this task
	OpSteps  int64 // statements executed inside the current operation
	OpLimit  int64 // >0: panic(StepLimit) when OpSteps exceeds it
	Site     int32 // last yield site seen
	InOp     bool
	Done     bool
}

type StepLimit struct{}

var (
	Mode    int
	Count   int64
	Limit   int64
	Hits    []uint32
	Current *Task
	ToSched = make(chan int)
	TraceOn bool // Mode 1: record the sequence of sites
	Trace   []int32
)

// SyncSite[site] is true for the statements listed in SyncSites (filled by InitSyncSites).
var SyncSite []bool

// Crit[site] is true for statements lexically inside a Lock()...Unlock() section. A task is not
// parked there unless ParkInCrit is set: a task parked with a lock in its hands deadlocks every
// other task that needs the lock (the simulator does not own the library's locks).
var Crit []bool
var ParkInCrit bool

func InitSyncSites() {
	SyncSite = make([]bool, NSites+1)
	for _, s := range SyncSites {
		SyncSite[s] = true
	}
	Crit = make([]bool, NSites+1)
	for _, s := range CritSites {
		Crit[s] = true
	}
}

var globals = map[string]map[string]interface{}{}

// RegisterGlobals is called from generated init functions (build tag verif).
func RegisterGlobals(pkg string, vars map[string]interface{}) { globals[pkg] = vars }

// Globals returns package dir -> variable name -> address of the variable.
func Globals() map[string]map[string]interface{} { return globals }

//go:norace
func Y(site int32) {
	switch Mode {
	case 0:
		return
	case 1:
		Count++
		if Hits != nil {
			Hits[site]++
		}
		if TraceOn && len(Trace) < 1<<20 {
			Trace = append(Trace, site)
		}
		if Limit > 0 && Count > Limit {
			panic(StepLimit{})
		}
	case 2:
		t := Current
		if SlowIdent {
			// some task is detached and may be running at the same time as the current one: the global
			// "current task" is not reliable, identify the caller by its goroutine id
			t = byGID(curGID())
		}
		if t == nil {
			return
		}
		t.Steps++
		t.OpSteps++
		t.Site = site
		if Hits != nil {
			Hits[site]++
		}
		if t.OpLimit > 0 && t.OpSteps > t.OpLimit {
			panic(StepLimit{})
		}
		crit := !ParkInCrit && int(site) < len(Crit) && Crit[site]
		if t.Kind == KSync {
			if t.Budget <= 0 && !crit { // postponed from inside a critical section
				park(t, EvYield)
				return
			}
			if int(site) < len(SyncSite) && SyncSite[site] {
				t.Budget--
				if t.Budget <= 0 && !crit {
					park(t, EvYield)
				}
			}
			return
		}
		if t.Kind != KStmts {
			return
		}
		t.Budget--
		if t.Budget > 0 {
			return
		}
		if crit {
			return // park at the first statement after the critical section
		}
		park(t, EvYield)
	}
}

//go:norace
func park(t *Task, ev int) {
	raceDisable()
	t.Ev <- ev
	<-t.Resume
	raceEnable()
}

// SlowIdent is set by the scheduler while at least one task is detached.
var SlowIdent bool

// Tasks of the current run (set by the scheduler before any task starts).
var Tasks []*Task

//go:norace
func byGID(g int64) *Task {
	for _, t := range Tasks {
		if t.GID == g {
			return t
		}
	}
	return nil
}

// curGID parses the goroutine id out of the first line of the stack trace ("goroutine 123 [").
//
//go:norace
func curGID() int64 {
	var buf [64]byte
	n := runtime.Stack(buf[:], false)
	var id int64
	for i := len("goroutine "); i < n && buf[i] >= '0' && buf[i] <= '9'; i++ {
		id = id*10 + int64(buf[i]-'0')
	}
	return id
}

// ResetTasks installs the tasks of a new run.
func ResetTasks(ts []*Task) {
	Tasks = ts
	SlowIdent = false
}

// OpBegin/OpEnd bracket one operation of a task (called by the harness, not by library code).
//
//go:norace
func OpBegin(t *Task) { t.OpSteps = 0; t.InOp = true }

//go:norace
func OpEnd(t *Task) {
	t.InOp = false
	park(t, EvOpEnd)
}

//go:norace
func Finish(t *Task) {
	raceDisable()
	t.Done = true
	t.Ev <- EvFinish
	raceEnable()
}

//go:norace
func WaitStart(t *Task) {
	raceDisable()
	t.GID = curGID()
	<-t.Resume
	raceEnable()
}

// SchedBegin/SchedEnd bracket the scheduler loop on the scheduler goroutine.
func SchedBegin() { raceDisable() }
func SchedEnd()   { raceEnable() }
