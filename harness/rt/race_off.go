//go:build !race

package verifrt

// RaceBuild reports whether the binary was built with -race.
const RaceBuild = false

func raceDisable() {}
func raceEnable()  {}
