// Package model is an executable transcription of the WHATWG URL Standard (24 May 2023 snapshot,
// commit eee49fd) written from the text of the standard. It shares no code with /repo.
// Domain-to-ASCII is taken as given: only pure-ASCII hosts without ACE labels are covered, any
// other host yields Unsupported ("outside the model"), never pass or fail.
package model

import (
	"sort"
	"strconv"
	"strings"
	"unicode/utf16"
)

type URL struct {
	Scheme, Username, Password string
	Host                       *string
	Port                       *int
	Opaque                     bool
	OpaquePath                 string
	Path                       []string
	Query, Fragment            *string
}

func (u *URL) Clone() *URL {
	c := *u
	if u.Host != nil {
		h := *u.Host
		c.Host = &h
	}
	if u.Port != nil {
		p := *u.Port
		c.Port = &p
	}
	c.Path = append([]string(nil), u.Path...)
	if u.Query != nil {
		q := *u.Query
		c.Query = &q
	}
	if u.Fragment != nil {
		f := *u.Fragment
		c.Fragment = &f
	}
	return &c
}

type State int

const (
	NoState State = iota
	SchemeStart
	Scheme
	NoScheme
	SpecialRelativeOrAuthority
	PathOrAuthority
	Relative
	RelativeSlash
	SpecialAuthoritySlashes
	SpecialAuthorityIgnoreSlashes
	Authority
	HostState
	Hostname
	PortState
	File
	FileSlash
	FileHost
	PathStart
	PathState
	OpaquePathState
	QueryState
	FragmentState
)

var defaultPort = map[string]int{"ftp": 21, "http": 80, "https": 443, "ws": 80, "wss": 443}

func IsSpecial(s string) bool {
	switch s {
	case "ftp", "file", "http", "https", "ws", "wss":
		return true
	}
	return false
}

// percent-encode sets
func c0Set(r rune) bool { return r <= 0x1f || r > 0x7e }
func fragmentSet(r rune) bool {
	return c0Set(r) || r == ' ' || r == '"' || r == '<' || r == '>' || r == '`'
}
func querySet(r rune) bool {
	return c0Set(r) || r == ' ' || r == '"' || r == '#' || r == '<' || r == '>'
}
func specialQuerySet(r rune) bool {
	return querySet(r) || r == '\''
}
func pathSet(r rune) bool { return querySet(r) || r == '?' || r == '`' || r == '{' || r == '}' }
func userinfoSet(r rune) bool {
	return pathSet(r) || strings.ContainsRune("/:;=@[\\]^|", r)
}

func pctEncode(r rune, set func(rune) bool) string {
	if !set(r) {
		return string(r)
	}
	var sb strings.Builder
	for _, b := range []byte(string(r)) {
		sb.WriteByte('%')
		sb.WriteByte("0123456789ABCDEF"[b>>4])
		sb.WriteByte("0123456789ABCDEF"[b&15])
	}
	return sb.String()
}

func pctEncodeString(s string, set func(rune) bool) string {
	var sb strings.Builder
	for _, r := range []rune(s) {
		sb.WriteString(pctEncode(r, set))
	}
	return sb.String()
}

func isHex(b byte) bool {
	return b >= '0' && b <= '9' || b >= 'a' && b <= 'f' || b >= 'A' && b <= 'F'
}

func PercentDecode(s string) []byte {
	var out []byte
	for i := 0; i < len(s); i++ {
		if s[i] == '%' && i+2 < len(s) && isHex(s[i+1]) && isHex(s[i+2]) {
			v, _ := strconv.ParseUint(s[i+1:i+3], 16, 8)
			out = append(out, byte(v))
			i += 2
		} else {
			out = append(out, s[i])
		}
	}
	return out
}

func isAlpha(r rune) bool { return r >= 'a' && r <= 'z' || r >= 'A' && r <= 'Z' }
func isDigit(r rune) bool { return r >= '0' && r <= '9' }
func lower(r rune) rune {
	if r >= 'A' && r <= 'Z' {
		return r + 32
	}
	return r
}

func isWinDrive(s []rune) bool {
	return len(s) == 2 && isAlpha(s[0]) && (s[1] == ':' || s[1] == '|')
}
func isNormWinDrive(s string) bool {
	return len(s) == 2 && isAlpha(rune(s[0])) && s[1] == ':'
}
func startsWithWinDrive(s []rune) bool {
	if len(s) < 2 || !isWinDrive(s[:2]) {
		return false
	}
	return len(s) == 2 || s[2] == '/' || s[2] == '\\' || s[2] == '?' || s[2] == '#'
}
func isSingleDot(s string) bool { s = strings.ToLower(s); return s == "." || s == "%2e" }
func isDoubleDot(s string) bool {
	s = strings.ToLower(s)
	return s == ".." || s == ".%2e" || s == "%2e." || s == "%2e%2e"
}

func (u *URL) shorten() {
	if u.Scheme == "file" && len(u.Path) == 1 && isNormWinDrive(u.Path[0]) {
		return
	}
	if len(u.Path) > 0 {
		u.Path = u.Path[:len(u.Path)-1]
	}
}

func (u *URL) includesCredentials() bool { return u.Username != "" || u.Password != "" }

type Result int

const (
	OK Result = iota
	Failure
	Unsupported // outside the model (IDNA)
)

const eof = rune(-1)

// Parse is the basic URL parser. url==nil => new URL. Returns (url, result).
func Parse(input string, base *URL, url *URL, override State) (*URL, Result) {
	in := []rune(input) // invalid bytes -> U+FFFD: scalar value string
	if url == nil {
		url = &URL{}
		s, e := 0, len(in)
		for s < e && in[s] <= 0x20 {
			s++
		}
		for e > s && in[e-1] <= 0x20 {
			e--
		}
		in = in[s:e]
	}
	{
		out := in[:0:0]
		for _, r := range in {
			if r != '\t' && r != '\n' && r != '\r' {
				out = append(out, r)
			}
		}
		in = out
	}
	state := override
	if override == NoState {
		state = SchemeStart
	}
	var buf []rune
	// the opaque path and the fragment are appended to code point by code point; they are collected
	// in builders and flushed when the parser returns (a string += per code point is quadratic)
	var opq, frag strings.Builder
	opqUsed, fragUsed := false, false
	defer func() {
		if opqUsed {
			url.OpaquePath += opq.String()
		}
		if fragUsed && url.Fragment != nil {
			f := *url.Fragment + frag.String()
			url.Fragment = &f
		}
	}()
	atSign, inBrackets, pwSeen := false, false, false
	special := func() bool { return IsSpecial(url.Scheme) }
	startsWith := func(p int, s string) bool { // remaining (after pointer) starts with s
		r := []rune(s)
		if p+1+len(r) > len(in) {
			return false
		}
		for i := range r {
			if in[p+1+i] != r[i] {
				return false
			}
		}
		return true
	}
	for p := 0; ; p++ {
		c := eof
		if p < len(in) {
			c = in[p]
		}
		switch state {
		case SchemeStart:
			if c != eof && isAlpha(c) {
				buf = append(buf, lower(c))
				state = Scheme
			} else if override == NoState {
				state = NoScheme
				p--
			} else {
				return url, Failure
			}
		case Scheme:
			if c != eof && (isAlpha(c) || isDigit(c) || c == '+' || c == '-' || c == '.') {
				buf = append(buf, lower(c))
			} else if c == ':' {
				b := string(buf)
				if override != NoState {
					if IsSpecial(url.Scheme) != IsSpecial(b) {
						return url, OK
					}
					if (url.includesCredentials() || url.Port != nil) && b == "file" {
						return url, OK
					}
					if url.Scheme == "file" && url.Host != nil && *url.Host == "" {
						return url, OK
					}
				}
				url.Scheme = b
				if override != NoState {
					if dp, ok := defaultPort[url.Scheme]; ok && url.Port != nil && *url.Port == dp {
						url.Port = nil
					}
					return url, OK
				}
				buf = nil
				if url.Scheme == "file" {
					state = File
				} else if special() && base != nil && base.Scheme == url.Scheme {
					state = SpecialRelativeOrAuthority
				} else if special() {
					state = SpecialAuthoritySlashes
				} else if startsWith(p, "/") {
					state = PathOrAuthority
					p++
				} else {
					url.Opaque = true
					url.OpaquePath = ""
					state = OpaquePathState
				}
			} else if override == NoState {
				buf = nil
				state = NoScheme
				p = -1
			} else {
				return url, Failure
			}
		case NoScheme:
			if base == nil || (base.Opaque && c != '#') {
				return url, Failure
			} else if base.Opaque && c == '#' {
				url.Scheme = base.Scheme
				url.Opaque, url.OpaquePath = true, base.OpaquePath
				url.Path = nil
				if base.Query != nil {
					q := *base.Query
					url.Query = &q
				}
				f := ""
				url.Fragment = &f
				state = FragmentState
			} else if base.Scheme != "file" {
				state = Relative
				p--
			} else {
				state = File
				p--
			}
		case SpecialRelativeOrAuthority:
			if c == '/' && startsWith(p, "/") {
				state = SpecialAuthorityIgnoreSlashes
				p++
			} else {
				state = Relative
				p--
			}
		case PathOrAuthority:
			if c == '/' {
				state = Authority
			} else {
				state = PathState
				p--
			}
		case Relative:
			url.Scheme = base.Scheme
			if c == '/' {
				state = RelativeSlash
			} else if special() && c == '\\' {
				state = RelativeSlash
			} else {
				b := base.Clone()
				url.Username, url.Password, url.Host, url.Port = b.Username, b.Password, b.Host, b.Port
				url.Opaque, url.OpaquePath, url.Path, url.Query = b.Opaque, b.OpaquePath, b.Path, b.Query
				if c == '?' {
					q := ""
					url.Query = &q
					state = QueryState
				} else if c == '#' {
					f := ""
					url.Fragment = &f
					state = FragmentState
				} else if c != eof {
					url.Query = nil
					url.shorten()
					state = PathState
					p--
				}
			}
		case RelativeSlash:
			if special() && (c == '/' || c == '\\') {
				state = SpecialAuthorityIgnoreSlashes
			} else if c == '/' {
				state = Authority
			} else {
				b := base.Clone()
				url.Username, url.Password, url.Host, url.Port = b.Username, b.Password, b.Host, b.Port
				state = PathState
				p--
			}
		case SpecialAuthoritySlashes:
			if c == '/' && startsWith(p, "/") {
				state = SpecialAuthorityIgnoreSlashes
				p++
			} else {
				state = SpecialAuthorityIgnoreSlashes
				p--
			}
		case SpecialAuthorityIgnoreSlashes:
			if c != '/' && c != '\\' {
				state = Authority
				p--
			}
		case Authority:
			if c == '@' {
				if atSign {
					buf = append([]rune("%40"), buf...)
				}
				atSign = true
				for _, cp := range buf {
					if cp == ':' && !pwSeen {
						pwSeen = true
						continue
					}
					e := pctEncode(cp, userinfoSet)
					if pwSeen {
						url.Password += e
					} else {
						url.Username += e
					}
				}
				buf = nil
			} else if c == eof || c == '/' || c == '?' || c == '#' || (special() && c == '\\') {
				if atSign && len(buf) == 0 {
					return url, Failure
				}
				p -= len(buf) + 1
				buf = nil
				state = HostState
			} else {
				buf = append(buf, c)
			}
		case HostState, Hostname:
			if override != NoState && url.Scheme == "file" {
				p--
				state = FileHost
			} else if c == ':' && !inBrackets {
				if len(buf) == 0 {
					return url, Failure
				}
				if override == Hostname {
					return url, OK
				}
				h, r := ParseHost(string(buf), !special())
				if r != OK {
					return url, r
				}
				url.Host = &h
				buf = nil
				state = PortState
			} else if c == eof || c == '/' || c == '?' || c == '#' || (special() && c == '\\') {
				p--
				if special() && len(buf) == 0 {
					return url, Failure
				} else if override != NoState && len(buf) == 0 && (url.includesCredentials() || url.Port != nil) {
					return url, OK
				}
				h, r := ParseHost(string(buf), !special())
				if r != OK {
					return url, r
				}
				url.Host = &h
				buf = nil
				state = PathStart
				if override != NoState {
					return url, OK
				}
			} else {
				if c == '[' {
					inBrackets = true
				}
				if c == ']' {
					inBrackets = false
				}
				buf = append(buf, c)
			}
		case PortState:
			if c != eof && isDigit(c) {
				buf = append(buf, c)
			} else if c == eof || c == '/' || c == '?' || c == '#' || (special() && c == '\\') || override != NoState {
				if len(buf) != 0 {
					port := 0
					for _, d := range buf {
						port = port*10 + int(d-'0')
						if port > 65535 {
							return url, Failure
						}
					}
					if dp, ok := defaultPort[url.Scheme]; ok && dp == port {
						url.Port = nil
					} else {
						url.Port = &port
					}
					buf = nil
				}
				if override != NoState {
					return url, OK
				}
				state = PathStart
				p--
			} else {
				return url, Failure
			}
		case File:
			url.Scheme = "file"
			e := ""
			url.Host = &e
			if c == '/' || c == '\\' {
				state = FileSlash
			} else if base != nil && base.Scheme == "file" {
				b := base.Clone()
				url.Host, url.Path, url.Query = b.Host, b.Path, b.Query
				url.Opaque = false
				if c == '?' {
					q := ""
					url.Query = &q
					state = QueryState
				} else if c == '#' {
					f := ""
					url.Fragment = &f
					state = FragmentState
				} else if c != eof {
					url.Query = nil
					if !startsWithWinDrive(in[p:]) {
						url.shorten()
					} else {
						url.Path = nil
					}
					state = PathState
					p--
				}
			} else {
				state = PathState
				p--
			}
		case FileSlash:
			if c == '/' || c == '\\' {
				state = FileHost
			} else {
				if base != nil && base.Scheme == "file" {
					if base.Host != nil {
						h := *base.Host
						url.Host = &h
					} else {
						url.Host = nil
					}
					var rest []rune
					if p < len(in) {
						rest = in[p:]
					}
					if !startsWithWinDrive(rest) && len(base.Path) > 0 && isNormWinDrive(base.Path[0]) {
						url.Path = append(url.Path, base.Path[0])
					}
				}
				state = PathState
				p--
			}
		case FileHost:
			if c == eof || c == '/' || c == '\\' || c == '?' || c == '#' {
				p--
				if override == NoState && isWinDrive(buf) {
					state = PathState
				} else if len(buf) == 0 {
					e := ""
					url.Host = &e
					if override != NoState {
						return url, OK
					}
					state = PathStart
				} else {
					h, r := ParseHost(string(buf), !special())
					if r != OK {
						return url, r
					}
					if h == "localhost" {
						h = ""
					}
					url.Host = &h
					if override != NoState {
						return url, OK
					}
					buf = nil
					state = PathStart
				}
			} else {
				buf = append(buf, c)
			}
		case PathStart:
			if special() {
				state = PathState
				if c != '/' && c != '\\' {
					p--
				}
			} else if override == NoState && c == '?' {
				q := ""
				url.Query = &q
				state = QueryState
			} else if override == NoState && c == '#' {
				f := ""
				url.Fragment = &f
				state = FragmentState
			} else if c != eof {
				state = PathState
				if c != '/' {
					p--
				}
			} else if override != NoState && url.Host == nil {
				url.Path = append(url.Path, "")
			}
		case PathState:
			if c == eof || c == '/' || (special() && c == '\\') || (override == NoState && (c == '?' || c == '#')) {
				b := string(buf)
				slash := c == '/' || (special() && c == '\\')
				if isDoubleDot(b) {
					url.shorten()
					if !slash {
						url.Path = append(url.Path, "")
					}
				} else if isSingleDot(b) && !slash {
					url.Path = append(url.Path, "")
				} else if !isSingleDot(b) {
					if url.Scheme == "file" && len(url.Path) == 0 && isWinDrive(buf) {
						b = string(buf[0]) + ":"
					}
					url.Path = append(url.Path, b)
				}
				buf = nil
				if c == '?' {
					q := ""
					url.Query = &q
					state = QueryState
				}
				if c == '#' {
					f := ""
					url.Fragment = &f
					state = FragmentState
				}
			} else {
				buf = append(buf, []rune(pctEncode(c, pathSet))...)
			}
		case OpaquePathState:
			if c == '?' {
				q := ""
				url.Query = &q
				state = QueryState
			} else if c == '#' {
				f := ""
				url.Fragment = &f
				state = FragmentState
			} else if c != eof {
				opq.WriteString(pctEncode(c, c0Set))
				opqUsed = true
			}
		case QueryState:
			if (override == NoState && c == '#') || c == eof {
				set := querySet
				if special() {
					set = specialQuerySet
				}
				q := *url.Query + pctEncodeString(string(buf), set)
				url.Query = &q
				buf = nil
				if c == '#' {
					f := ""
					url.Fragment = &f
					state = FragmentState
				}
			} else {
				buf = append(buf, c)
			}
		case FragmentState:
			if c != eof {
				frag.WriteString(pctEncode(c, fragmentSet))
				fragUsed = true
			}
		}
		if p >= len(in) {
			break
		}
	}
	return url, OK
}

// ---------- host parsing

const forbiddenHost = "\x00\t\n\r #/:<>?@[\\]^|"

func isForbiddenHost(r rune) bool { return r < 0x80 && strings.ContainsRune(forbiddenHost, r) }
func isForbiddenDomain(r rune) bool {
	return isForbiddenHost(r) || r <= 0x1f || r == '%' || r == 0x7f
}

func ParseHost(input string, isOpaque bool) (string, Result) {
	if strings.HasPrefix(input, "[") {
		if !strings.HasSuffix(input, "]") {
			return "", Failure
		}
		a, ok := parseIPv6([]rune(input[1 : len(input)-1]))
		if !ok {
			return "", Failure
		}
		return "[" + serializeIPv6(a) + "]", OK
	}
	if isOpaque {
		for _, r := range input {
			if isForbiddenHost(r) {
				return "", Failure
			}
		}
		return pctEncodeString(input, c0Set), OK
	}
	dec := PercentDecode(input)
	domain := string([]rune(string(dec))) // invalid -> U+FFFD
	ascii, r := domainToASCII(domain)
	if r != OK {
		return "", r
	}
	for _, c := range ascii {
		if isForbiddenDomain(c) {
			return "", Failure
		}
	}
	if endsInANumber(ascii) {
		v, ok := parseIPv4(ascii)
		if !ok {
			return "", Failure
		}
		return strconv.Itoa(int(v>>24)) + "." + strconv.Itoa(int(v>>16&255)) + "." + strconv.Itoa(int(v>>8&255)) + "." + strconv.Itoa(int(v&255)), OK
	}
	return ascii, OK
}

// AssumeACEFixedPoint makes domain-to-ASCII the identity on ASCII hosts that contain ACE (xn--)
// labels ("the IDNA mapping is taken as given": a host the parser has already produced is assumed
// to be a fixed point). Only the C03 exemption test sets it, to judge the non-host part of a state.
var AssumeACEFixedPoint bool

// ToASCIIHook, when set, supplies domain-to-ASCII for hosts the model does not cover itself
// (non-ASCII code points or ACE labels): "the IDNA mapping is taken as given". It returns the ASCII
// form, whether the conversion succeeded, and whether the hook could judge at all.
var ToASCIIHook func(domain string) (ascii string, ok bool, supported bool)

func domainToASCII(d string) (string, Result) {
	needsIDNA := false
	for _, r := range d {
		if r >= 0x80 {
			needsIDNA = true
		}
	}
	l := strings.ToLower(d)
	for _, label := range strings.Split(l, ".") {
		if strings.HasPrefix(label, "xn--") && !AssumeACEFixedPoint {
			needsIDNA = true
		}
	}
	if needsIDNA {
		if ToASCIIHook == nil {
			return "", Unsupported
		}
		a, ok, sup := ToASCIIHook(d)
		if !sup {
			return "", Unsupported
		}
		if !ok || a == "" {
			return "", Failure
		}
		return a, OK
	}
	if l == "" {
		return "", Failure
	}
	return l, OK
}

func endsInANumber(s string) bool {
	parts := strings.Split(s, ".")
	if parts[len(parts)-1] == "" {
		if len(parts) == 1 {
			return false
		}
		parts = parts[:len(parts)-1]
	}
	last := parts[len(parts)-1]
	if last != "" {
		all := true
		for _, r := range last {
			if !isDigit(r) {
				all = false
			}
		}
		if all {
			return true
		}
	}
	_, ok := parseIPv4Number(last)
	return ok
}

const huge = uint64(1) << 40

func parseIPv4Number(s string) (uint64, bool) {
	if s == "" {
		return 0, false
	}
	R := uint64(10)
	if len(s) >= 2 && (s[:2] == "0x" || s[:2] == "0X") {
		s = s[2:]
		R = 16
	} else if len(s) >= 2 && s[0] == '0' {
		s = s[1:]
		R = 8
	}
	if s == "" {
		return 0, true
	}
	var v uint64
	for i := 0; i < len(s); i++ {
		var d uint64
		c := s[i]
		switch {
		case c >= '0' && c <= '9':
			d = uint64(c - '0')
		case c >= 'a' && c <= 'f':
			d = uint64(c-'a') + 10
		case c >= 'A' && c <= 'F':
			d = uint64(c-'A') + 10
		default:
			return 0, false
		}
		if d >= R {
			return 0, false
		}
		v = v*R + d
		if v > huge {
			v = huge
		}
	}
	return v, true
}

func parseIPv4(s string) (uint32, bool) {
	parts := strings.Split(s, ".")
	if parts[len(parts)-1] == "" && len(parts) > 1 {
		parts = parts[:len(parts)-1]
	}
	if len(parts) > 4 {
		return 0, false
	}
	var nums []uint64
	for _, p := range parts {
		n, ok := parseIPv4Number(p)
		if !ok {
			return 0, false
		}
		nums = append(nums, n)
	}
	for _, n := range nums[:len(nums)-1] {
		if n > 255 {
			return 0, false
		}
	}
	lim := uint64(1)
	for i := 0; i < 5-len(nums); i++ {
		lim *= 256
	}
	if nums[len(nums)-1] >= lim {
		return 0, false
	}
	v := nums[len(nums)-1]
	for i, n := range nums[:len(nums)-1] {
		sh := uint(8 * (3 - i))
		v += n << sh
	}
	return uint32(v), true
}

func hexVal(r rune) (int, bool) {
	switch {
	case r >= '0' && r <= '9':
		return int(r - '0'), true
	case r >= 'a' && r <= 'f':
		return int(r-'a') + 10, true
	case r >= 'A' && r <= 'F':
		return int(r-'A') + 10, true
	}
	return 0, false
}

func parseIPv6(in []rune) ([8]uint16, bool) {
	var a [8]uint16
	piece, compress, p := 0, -1, 0
	c := func() rune {
		if p < len(in) {
			return in[p]
		}
		return eof
	}
	if c() == ':' {
		if p+1 >= len(in) || in[p+1] != ':' {
			return a, false
		}
		p += 2
		piece++
		compress = piece
	}
	for c() != eof {
		if piece == 8 {
			return a, false
		}
		if c() == ':' {
			if compress != -1 {
				return a, false
			}
			p++
			piece++
			compress = piece
			continue
		}
		value, length := 0, 0
		for length < 4 {
			h, ok := hexVal(c())
			if !ok {
				break
			}
			value = value*16 + h
			p++
			length++
		}
		if c() == '.' {
			if length == 0 {
				return a, false
			}
			p -= length
			if piece > 6 {
				return a, false
			}
			seen := 0
			for c() != eof {
				v4 := -1
				if seen > 0 {
					if c() == '.' && seen < 4 {
						p++
					} else {
						return a, false
					}
				}
				if c() == eof || !isDigit(c()) {
					return a, false
				}
				for c() != eof && isDigit(c()) {
					n := int(c() - '0')
					if v4 == -1 {
						v4 = n
					} else if v4 == 0 {
						return a, false
					} else {
						v4 = v4*10 + n
					}
					if v4 > 255 {
						return a, false
					}
					p++
				}
				a[piece] = a[piece]*0x100 + uint16(v4)
				seen++
				if seen == 2 || seen == 4 {
					piece++
				}
			}
			if seen != 4 {
				return a, false
			}
			break
		} else if c() == ':' {
			p++
			if c() == eof {
				return a, false
			}
		} else if c() != eof {
			return a, false
		}
		a[piece] = uint16(value)
		piece++
	}
	if compress != -1 {
		swaps := piece - compress
		piece = 7
		for piece != 0 && swaps > 0 {
			a[piece], a[compress+swaps-1] = a[compress+swaps-1], a[piece]
			piece--
			swaps--
		}
	} else if piece != 8 {
		return a, false
	}
	return a, true
}

func serializeIPv6(a [8]uint16) string {
	compress, best := -1, 1
	for i := 0; i < 8; {
		if a[i] != 0 {
			i++
			continue
		}
		j := i
		for j < 8 && a[j] == 0 {
			j++
		}
		if j-i > best {
			best = j - i
			compress = i
		}
		i = j
	}
	var sb strings.Builder
	ignore0 := false
	for i := 0; i < 8; i++ {
		if ignore0 && a[i] == 0 {
			continue
		} else if ignore0 {
			ignore0 = false
		}
		if compress == i {
			if i == 0 {
				sb.WriteString("::")
			} else {
				sb.WriteString(":")
			}
			ignore0 = true
			continue
		}
		sb.WriteString(strconv.FormatUint(uint64(a[i]), 16))
		if i != 7 {
			sb.WriteByte(':')
		}
	}
	return sb.String()
}

// ---------- serializer and getters

func (u *URL) PathString() string {
	if u.Opaque {
		return u.OpaquePath
	}
	var sb strings.Builder
	for _, s := range u.Path {
		sb.WriteByte('/')
		sb.WriteString(s)
	}
	return sb.String()
}

func (u *URL) Href(excludeFragment bool) string {
	o := u.Scheme + ":"
	if u.Host != nil {
		o += "//"
		if u.includesCredentials() {
			o += u.Username
			if u.Password != "" {
				o += ":" + u.Password
			}
			o += "@"
		}
		o += *u.Host
		if u.Port != nil {
			o += ":" + strconv.Itoa(*u.Port)
		}
	}
	if u.Host == nil && !u.Opaque && len(u.Path) > 1 && u.Path[0] == "" {
		o += "/."
	}
	o += u.PathString()
	if u.Query != nil {
		o += "?" + *u.Query
	}
	if !excludeFragment && u.Fragment != nil {
		o += "#" + *u.Fragment
	}
	return o
}

func (u *URL) Protocol() string { return u.Scheme + ":" }
func (u *URL) HostGetter() string {
	if u.Host == nil {
		return ""
	}
	if u.Port == nil {
		return *u.Host
	}
	return *u.Host + ":" + strconv.Itoa(*u.Port)
}
func (u *URL) HostnameGetter() string {
	if u.Host == nil {
		return ""
	}
	return *u.Host
}
func (u *URL) PortGetter() string {
	if u.Port == nil {
		return ""
	}
	return strconv.Itoa(*u.Port)
}
func (u *URL) Search() string {
	if u.Query == nil || *u.Query == "" {
		return ""
	}
	return "?" + *u.Query
}
func (u *URL) Hash() string {
	if u.Fragment == nil || *u.Fragment == "" {
		return ""
	}
	return "#" + *u.Fragment
}

// ---------- setters (API section of the standard)

func (u *URL) cannotHaveCreds() bool {
	return u.Host == nil || *u.Host == "" || u.Scheme == "file"
}
func (u *URL) stripTrailingSpaces() {
	if !u.Opaque || u.Fragment != nil || u.Query != nil {
		return
	}
	u.OpaquePath = strings.TrimRight(u.OpaquePath, " ")
}

// each setter returns Unsupported if the model cannot judge (IDNA), in which case u is unspecified.
func (u *URL) SetProtocol(v string) Result { _, r := Parse(v+":", nil, u, SchemeStart); return norm(r) }
func (u *URL) SetUsername(v string) Result {
	if u.cannotHaveCreds() {
		return OK
	}
	u.Username = pctEncodeString(v, userinfoSet)
	return OK
}
func (u *URL) SetPassword(v string) Result {
	if u.cannotHaveCreds() {
		return OK
	}
	u.Password = pctEncodeString(v, userinfoSet)
	return OK
}
func (u *URL) SetHost(v string) Result {
	if u.Opaque {
		return OK
	}
	_, r := Parse(v, nil, u, HostState)
	return norm(r)
}
func (u *URL) SetHostname(v string) Result {
	if u.Opaque {
		return OK
	}
	_, r := Parse(v, nil, u, Hostname)
	return norm(r)
}
func (u *URL) SetPort(v string) Result {
	if u.cannotHaveCreds() {
		return OK
	}
	if v == "" {
		u.Port = nil
		return OK
	}
	_, r := Parse(v, nil, u, PortState)
	return norm(r)
}
func (u *URL) SetPathname(v string) Result {
	if u.Opaque {
		return OK
	}
	u.Path = nil
	_, r := Parse(v, nil, u, PathStart)
	return norm(r)
}
func (u *URL) SetSearch(v string) Result {
	if v == "" {
		u.Query = nil
		u.stripTrailingSpaces()
		return OK
	}
	v = strings.TrimPrefix(v, "?")
	e := ""
	u.Query = &e
	_, r := Parse(v, nil, u, QueryState)
	return norm(r)
}
func (u *URL) SetHash(v string) Result {
	if v == "" {
		u.Fragment = nil
		u.stripTrailingSpaces()
		return OK
	}
	v = strings.TrimPrefix(v, "#")
	e := ""
	u.Fragment = &e
	_, r := Parse(v, nil, u, FragmentState)
	return norm(r)
}
func norm(r Result) Result {
	if r == Unsupported {
		return Unsupported
	}
	return OK
}

// ---------- application/x-www-form-urlencoded

type Pair struct{ Name, Value string }

func ParseUrlencoded(q string) []Pair {
	var out []Pair
	for _, seq := range strings.Split(q, "&") {
		if seq == "" {
			continue
		}
		name, value := seq, ""
		if i := strings.IndexByte(seq, '='); i >= 0 {
			name, value = seq[:i], seq[i+1:]
		}
		name = strings.ReplaceAll(name, "+", " ")
		value = strings.ReplaceAll(value, "+", " ")
		out = append(out, Pair{string([]rune(string(PercentDecode(name)))), string([]rune(string(PercentDecode(value))))})
	}
	return out
}

// ParseUrlencodedRaw is ParseUrlencoded without the final UTF-8 decode: names and values keep the
// raw percent-decoded bytes (callers compare after mapping ill-formed sequences to U+FFFD).
func ParseUrlencodedRaw(q string) []Pair {
	var out []Pair
	for _, seq := range strings.Split(q, "&") {
		if seq == "" {
			continue
		}
		name, value := seq, ""
		if i := strings.IndexByte(seq, '='); i >= 0 {
			name, value = seq[:i], seq[i+1:]
		}
		name = strings.ReplaceAll(name, "+", " ")
		value = strings.ReplaceAll(value, "+", " ")
		out = append(out, Pair{string(PercentDecode(name)), string(PercentDecode(value))})
	}
	return out
}

func urlencodeBytes(s string) string {
	var sb strings.Builder
	for _, b := range []byte(string([]rune(s))) {
		switch {
		case b == ' ':
			sb.WriteByte('+')
		case b == '*' || b == '-' || b == '.' || b == '_' || b >= '0' && b <= '9' || b >= 'a' && b <= 'z' || b >= 'A' && b <= 'Z':
			sb.WriteByte(b)
		default:
			sb.WriteByte('%')
			sb.WriteByte("0123456789ABCDEF"[b>>4])
			sb.WriteByte("0123456789ABCDEF"[b&15])
		}
	}
	return sb.String()
}

func SerializeUrlencoded(l []Pair) string {
	var parts []string
	for _, p := range l {
		parts = append(parts, urlencodeBytes(p.Name)+"="+urlencodeBytes(p.Value))
	}
	return strings.Join(parts, "&")
}

func utf16Less(a, b string) bool {
	x, y := utf16.Encode([]rune(a)), utf16.Encode([]rune(b))
	for i := 0; i < len(x) && i < len(y); i++ {
		if x[i] != y[i] {
			return x[i] < y[i]
		}
	}
	return len(x) < len(y)
}

func SortPairs(l []Pair) {
	sort.SliceStable(l, func(i, j int) bool { return utf16Less(l[i].Name, l[j].Name) })
}

// CanonicalIPv6 reports whether inner (the text between the brackets) is an IPv6 address in the
// standard's serialization (parses, and serializes to itself).
func CanonicalIPv6(inner string) bool {
	a, ok := parseIPv6([]rune(inner))
	return ok && serializeIPv6(a) == inner
}
