package model

import (
	"testing"

	"verif/harness"
)

func TestWPT(t *testing.T) {
	cov, out, bad := SelfTest(harness.URLTestData, harness.SettersTests)
	for _, b := range bad {
		t.Error(b)
	}
	t.Logf("covered %d outside %d bad %d", cov, out, len(bad))
	if cov < 900 {
		t.Errorf("model covers only %d vectors", cov)
	}
}
