package model

import (
	"encoding/json"
	"fmt"
)

// SelfTest checks the model against the WPT vectors (urltestdata.json, setters_tests.json).
// It returns counts and the list of disagreements; the model may only be used as an oracle when
// the list is empty.
func SelfTest(urlData, setterData []byte) (covered, outside int, bad []string) {
	var raw []json.RawMessage
	if err := json.Unmarshal(urlData, &raw); err != nil {
		return 0, 0, []string{"urltestdata: " + err.Error()}
	}
	type tc struct {
		Input                                                                      string
		Base                                                                       *string
		Href                                                                       string
		Protocol, Username, Password, Host, Hostname, Port, Pathname, Search, Hash string
		Failure                                                                    bool
	}
	for _, r := range raw {
		var c tc
		if json.Unmarshal(r, &c) != nil || (c.Input == "" && c.Href == "" && !c.Failure) {
			continue
		}
		var base *URL
		if c.Base != nil && *c.Base != "" {
			b, res := Parse(*c.Base, nil, nil, NoState)
			if res == Unsupported {
				outside++
				continue
			}
			if res != OK {
				if !c.Failure {
					bad = append(bad, fmt.Sprintf("base %q failed", *c.Base))
				}
				continue
			}
			base = b
		}
		u, res := Parse(c.Input, base, nil, NoState)
		if res == Unsupported {
			outside++
			continue
		}
		covered++
		if (res == Failure) != c.Failure {
			bad = append(bad, fmt.Sprintf("input %q: failure=%v want %v", c.Input, res == Failure, c.Failure))
			continue
		}
		if c.Failure {
			continue
		}
		got := []string{u.Href(false), u.Protocol(), u.Username, u.Password, u.HostGetter(), u.HostnameGetter(), u.PortGetter(), u.PathString(), u.Search(), u.Hash()}
		want := []string{c.Href, c.Protocol, c.Username, c.Password, c.Host, c.Hostname, c.Port, c.Pathname, c.Search, c.Hash}
		for i := range got {
			if got[i] != want[i] {
				bad = append(bad, fmt.Sprintf("input %q: field %d got %q want %q", c.Input, i, got[i], want[i]))
				break
			}
		}
	}
	var all map[string]json.RawMessage
	if err := json.Unmarshal(setterData, &all); err != nil {
		return covered, outside, append(bad, "setters_tests: "+err.Error())
	}
	type st struct {
		Href      string
		New_value string
		Expected  map[string]string
	}
	for _, name := range []string{"protocol", "username", "password", "host", "hostname", "port", "pathname", "search", "hash"} {
		var tests []st
		if err := json.Unmarshal(all[name], &tests); err != nil {
			bad = append(bad, name+": "+err.Error())
			continue
		}
		for _, c := range tests {
			u, res := Parse(c.Href, nil, nil, NoState)
			if res != OK {
				outside++
				continue
			}
			r := u.Set(name, c.New_value)
			if r == Unsupported {
				outside++
				continue
			}
			covered++
			got := map[string]string{"href": u.Href(false), "protocol": u.Protocol(), "username": u.Username, "password": u.Password, "host": u.HostGetter(), "hostname": u.HostnameGetter(), "port": u.PortGetter(), "pathname": u.PathString(), "search": u.Search(), "hash": u.Hash()}
			for k, w := range c.Expected {
				if got[k] != w {
					bad = append(bad, fmt.Sprintf("%s: %q <- %q: %s got %q want %q", name, c.Href, c.New_value, k, got[k], w))
				}
			}
		}
	}
	return
}

// Set applies the named API setter.
func (u *URL) Set(name, v string) Result {
	switch name {
	case "protocol":
		return u.SetProtocol(v)
	case "username":
		return u.SetUsername(v)
	case "password":
		return u.SetPassword(v)
	case "host":
		return u.SetHost(v)
	case "hostname":
		return u.SetHostname(v)
	case "port":
		return u.SetPort(v)
	case "pathname":
		return u.SetPathname(v)
	case "search":
		return u.SetSearch(v)
	case "hash":
		return u.SetHash(v)
	}
	return OK
}
