module verif/harness

go 1.23

require github.com/nlnwa/whatwg-url v0.0.0

// Development default only: every check builds with -modfile pointing at a go.mod whose replace
// directive names the freshly instrumented scratch copy of /repo (see /verif/check).
replace github.com/nlnwa/whatwg-url => /repo
