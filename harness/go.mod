module verif/harness

go 1.23

require (
	github.com/nlnwa/whatwg-url v0.0.0
	golang.org/x/net v0.34.0
	golang.org/x/text v0.21.0
)

require github.com/bits-and-blooms/bitset v1.20.0 // indirect

// Development default only: every check builds with -modfile pointing at a go.mod whose replace
// directive names the freshly instrumented scratch copy of /repo (see /verif/check).
replace github.com/nlnwa/whatwg-url => /repo
