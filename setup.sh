#!/bin/bash
# setup_cmd: offline; warms the Go build cache (std + -race std + dependencies) and runs the
# reference model's self-test against the WPT snapshot.
set -eu
cd "$(dirname "$0")"
export GOFLAGS=-mod=mod GOPROXY=off GOSUMDB=off GOTOOLCHAIN=local
mkdir -p evidence replays
./check warm
