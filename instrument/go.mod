module verif/instrument

go 1.23
