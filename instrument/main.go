// instrument SRC DST RTDIR
//
// Copies the module at SRC (without .git) to DST and rewrites every non-test .go file of every
// package so that the seeded simulator in /verif owns every scheduling decision:
//
//   - `verifrt.Y(<site>); ` is inserted on the same line immediately before every statement of every
//     statement list (function bodies, nested blocks, case/comm clause bodies, function literals).
//     Same-line insertion keeps all line numbers identical to the source tree, so panics, race
//     reports and replay files cite real /repo lines.
//   - per package, a generated file (build tag verif) registers the addresses of all package-level
//     variables found in the AST with verifrt, so the harness can fingerprint every global that
//     exists in the tree *now* (a later change that adds a memo cache is covered automatically).
//   - the verifrt runtime package (RTDIR) is copied in as <module>/verifrt together with a generated
//     site table.
//
// Nothing is written to SRC.
package main

import (
	"bytes"
	"fmt"
	"go/ast"
	"go/parser"
	"go/token"
	"os"
	"path/filepath"
	"sort"
	"strconv"
	"strings"
)

func die(f string, a ...interface{}) {
	fmt.Fprintf(os.Stderr, "instrument: "+f+"\n", a...)
	os.Exit(2)
}

func modulePath(src string) string {
	data, err := os.ReadFile(filepath.Join(src, "go.mod"))
	if err != nil {
		die("%v", err)
	}
	for _, l := range strings.Split(string(data), "\n") {
		l = strings.TrimSpace(l)
		if strings.HasPrefix(l, "module ") {
			return strings.TrimSpace(strings.TrimPrefix(l, "module "))
		}
	}
	die("no module line in go.mod")
	return ""
}

var syncMethods = map[string]bool{
	"Load": true, "Store": true, "Swap": true, "CompareAndSwap": true, "LoadOrStore": true, "LoadAndDelete": true,
	"CompareAndDelete": true, "Lock": true, "Unlock": true, "RLock": true, "RUnlock": true, "TryLock": true, "TryRLock": true,
	"Do": true, "Put": true, "Wait": true, "Signal": true, "Broadcast": true,
}

// touchesSync: the statement itself (not the statements nested in its blocks or function literals)
// syntactically uses a synchronisation primitive: a method with a name from sync / sync/atomic
// (Load, Store, Lock, ..., Pool.Put; Get and Add are left out, they are everywhere), a function of
// package atomic, a channel operation, a go statement or a select. There is no type information at
// this point; false positives merely add candidate preemption points.
func touchesSync(s ast.Stmt) bool {
	found := false
	switch s.(type) {
	case *ast.GoStmt, *ast.SelectStmt, *ast.SendStmt:
		return true
	}
	ast.Inspect(s, func(n ast.Node) bool {
		if found {
			return false
		}
		switch x := n.(type) {
		case *ast.BlockStmt, *ast.FuncLit:
			return false
		case *ast.UnaryExpr:
			if x.Op == token.ARROW {
				found = true
			}
		case *ast.CallExpr:
			if sel, ok := x.Fun.(*ast.SelectorExpr); ok {
				if syncMethods[sel.Sel.Name] {
					found = true
				}
				if id, ok := sel.X.(*ast.Ident); ok && id.Name == "atomic" {
					found = true
				}
			}
		}
		return true
	})
	return found
}

// lockCall: +1 for a statement `x.Lock()` / `x.RLock()`, -1 for `x.Unlock()` / `x.RUnlock()`
// (expression statements only; a deferred unlock keeps the section open to the end of the list).
func lockCall(s ast.Stmt) int {
	es, ok := s.(*ast.ExprStmt)
	if !ok {
		return 0
	}
	c, ok := es.X.(*ast.CallExpr)
	if !ok {
		return 0
	}
	sel, ok := c.Fun.(*ast.SelectorExpr)
	if !ok {
		return 0
	}
	switch sel.Sel.Name {
	case "Lock", "RLock":
		return 1
	case "Unlock", "RUnlock":
		return -1
	}
	return 0
}

type pkgInfo struct {
	dir, name string
	vars      []string
}

func main() {
	if len(os.Args) != 4 {
		die("usage: instrument SRC DST RTDIR")
	}
	src, dst, rtdir := os.Args[1], os.Args[2], os.Args[3]
	modpath := modulePath(src)
	site := 0
	var syncSites, critSites []int
	table := []string{"\"\""}
	pkgs := map[string]*pkgInfo{}
	var files []string
	err := filepath.Walk(src, func(p string, info os.FileInfo, err error) error {
		if err != nil {
			return err
		}
		rel, _ := filepath.Rel(src, p)
		if info.IsDir() {
			if info.Name() == ".git" || rel == "verifrt" {
				return filepath.SkipDir
			}
			return os.MkdirAll(filepath.Join(dst, rel), 0o755)
		}
		if !info.Mode().IsRegular() {
			return nil
		}
		files = append(files, rel)
		return nil
	})
	if err != nil {
		die("%v", err)
	}
	sort.Strings(files) // site numbering independent of directory read order
	for _, rel := range files {
		p := filepath.Join(src, rel)
		data, err := os.ReadFile(p)
		if err != nil {
			die("%v", err)
		}
		base := filepath.Base(rel)
		if strings.HasSuffix(base, ".go") && !strings.HasSuffix(base, "_test.go") && !strings.HasPrefix(base, "zz_verif_") {
			fset := token.NewFileSet()
			f, err := parser.ParseFile(fset, p, data, parser.ParseComments)
			if err != nil {
				die("parse %s: %v", rel, err)
			}
			dir := filepath.Dir(rel)
			pi := pkgs[dir]
			if pi == nil {
				pi = &pkgInfo{dir: dir, name: f.Name.Name}
				pkgs[dir] = pi
			}
			for _, d := range f.Decls {
				gd, ok := d.(*ast.GenDecl)
				if !ok || gd.Tok != token.VAR {
					continue
				}
				for _, s := range gd.Specs {
					for _, n := range s.(*ast.ValueSpec).Names {
						if n.Name != "_" {
							pi.vars = append(pi.vars, n.Name)
						}
					}
				}
			}
			var offs []int
			syncAt := map[int]bool{}
			critFrom := map[int]bool{}
			addList := func(list []ast.Stmt) {
				held := 0
				for _, s := range list {
					// a labeled statement must keep its label directly attached; yield before the label
					o := fset.Position(s.Pos()).Offset
					offs = append(offs, o)
					if touchesSync(s) {
						syncAt[o] = true
					}
					// lexical critical section: after `x.Lock()` / `x.RLock()` until the matching
					// `x.Unlock()` statement of the same list, or the end of the list (defer x.Unlock())
					if held > 0 {
						critFrom[o] = true
						// everything nested in this statement is inside the section too
						ast.Inspect(s, func(n ast.Node) bool {
							if st, ok := n.(ast.Stmt); ok {
								critFrom[fset.Position(st.Pos()).Offset] = true
							}
							return true
						})
					}
					switch lockCall(s) {
					case 1:
						held++
					case -1:
						if held > 0 {
							held--
						}
					}
				}
			}
			skip := map[*ast.BlockStmt]bool{}
			ast.Inspect(f, func(n ast.Node) bool {
				switch x := n.(type) {
				case *ast.SwitchStmt:
					skip[x.Body] = true
				case *ast.TypeSwitchStmt:
					skip[x.Body] = true
				case *ast.SelectStmt:
					skip[x.Body] = true
				case *ast.BlockStmt:
					if !skip[x] {
						addList(x.List)
					}
				case *ast.CaseClause:
					addList(x.Body)
				case *ast.CommClause:
					addList(x.Body)
				}
				return true
			})
			sort.Ints(offs)
			var out bytes.Buffer
			last := 0
			for _, o := range offs {
				out.Write(data[last:o])
				site++
				pos := fset.Position(token.Pos(fset.File(f.Pos()).Base() + o))
				table = append(table, strconv.Quote(fmt.Sprintf("%s:%d:%d", filepath.ToSlash(rel), pos.Line, pos.Column)))
				if syncAt[o] {
					syncSites = append(syncSites, site)
				}
				if critFrom[o] {
					critSites = append(critSites, site)
				}
				fmt.Fprintf(&out, "verifrt.Y(%d); ", site)
				last = o
			}
			out.Write(data[last:])
			res := out.Bytes()
			if len(offs) > 0 {
				pkgEnd := fset.Position(f.Name.End()).Offset
				res = append(append(append([]byte{}, res[:pkgEnd]...), []byte(`; import verifrt "`+modpath+`/verifrt"`)...), res[pkgEnd:]...)
			}
			data = res
		}
		if err := os.WriteFile(filepath.Join(dst, rel), data, 0o644); err != nil {
			die("%v", err)
		}
	}
	// globals accessors
	var dirs []string
	for d := range pkgs {
		dirs = append(dirs, d)
	}
	sort.Strings(dirs)
	for _, d := range dirs {
		pi := pkgs[d]
		if pi.name == "main" {
			continue
		}
		var b bytes.Buffer
		fmt.Fprintf(&b, "//go:build verif\n\n// Code generated by /verif/instrument. DO NOT EDIT.\n\npackage %s\n\nimport verifrt %q\n\n", pi.name, modpath+"/verifrt")
		fmt.Fprintf(&b, "func init() {\n\tverifrt.RegisterGlobals(%q, map[string]interface{}{\n", filepath.ToSlash(d))
		sort.Strings(pi.vars)
		prev := ""
		for _, v := range pi.vars {
			if v == prev {
				continue
			}
			prev = v
			fmt.Fprintf(&b, "\t\t%q: &%s,\n", v, v)
		}
		fmt.Fprintf(&b, "\t})\n}\n")
		if err := os.WriteFile(filepath.Join(dst, d, "zz_verif_globals.go"), b.Bytes(), 0o644); err != nil {
			die("%v", err)
		}
	}
	// runtime
	rdst := filepath.Join(dst, "verifrt")
	if err := os.MkdirAll(rdst, 0o755); err != nil {
		die("%v", err)
	}
	ents, err := os.ReadDir(rtdir)
	if err != nil {
		die("%v", err)
	}
	for _, e := range ents {
		if e.IsDir() || !strings.HasSuffix(e.Name(), ".go") {
			continue
		}
		data, err := os.ReadFile(filepath.Join(rtdir, e.Name()))
		if err != nil {
			die("%v", err)
		}
		if err := os.WriteFile(filepath.Join(rdst, e.Name()), data, 0o644); err != nil {
			die("%v", err)
		}
	}
	var b bytes.Buffer
	fmt.Fprintf(&b, "// Code generated by /verif/instrument. DO NOT EDIT.\n\npackage verifrt\n\nconst NSites = %d\n\nvar SiteNames = []string{\n", site)
	for _, t := range table {
		fmt.Fprintf(&b, "\t%s,\n", t)
	}
	fmt.Fprintf(&b, "}\n\n// SyncSites: statements that (syntactically) use a synchronisation primitive.\nvar SyncSites = []int32{")
	for _, x := range syncSites {
		fmt.Fprintf(&b, "%d, ", x)
	}
	fmt.Fprintf(&b, "}\n\n// CritSites: statements lexically inside a Lock()...Unlock() section.\nvar CritSites = []int32{")
	for _, x := range critSites {
		fmt.Fprintf(&b, "%d, ", x)
	}
	fmt.Fprintf(&b, "}\n")
	if err := os.WriteFile(filepath.Join(rdst, "zz_sites.go"), b.Bytes(), 0o644); err != nil {
		die("%v", err)
	}
	fmt.Printf("instrument: module=%s sites=%d sync-sites=%d critical-section-sites=%d packages=%d\n", modpath, site, len(syncSites), len(critSites), len(pkgs))
}
