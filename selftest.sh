#!/bin/bash
# Determinism self-test: the same seed must give the identical digest of event logs in fresh
# processes across GOMAXPROCS 1/4/16 and across worker splits. Called by `./check selftest`.
# usage: selftest.sh SIM SIM_RACE TMP
set -u
SIM=$1; RACE=$2; TMP=$3
fail=0
digest() { # bin prop runs gomaxprocs tag
  local out="$TMP/st-$2-$5.json"
  GOMAXPROCS=$4 GORACE="halt_on_error=1 exitcode=66 log_path=$TMP/st-race" "$1" -mode worker -prop "$2" -runs "$3" -stride 1 -offset 0 -out "$out" -verif /verif -tmp "$TMP" >/dev/null 2>&1 || { echo "selftest: worker failed for $2 ($5)"; return 1; }
  jq -r '.digest' "$out"
}
for prop in C02 C03 C04 C05 C11 C12 C13 C19 C14; do
  runs=3000; [ "$prop" = C14 ] && runs=300
  ref=""
  n=0
  pids=()
  for gmp in 1 4 16; do
    for rep in 1 2 3 4 5 6 7 8 9 10; do
      ( digest "$SIM" "$prop" "$runs" "$gmp" "$gmp-$rep" > "$TMP/d-$prop-$gmp-$rep" ) &
      pids+=($!)
    done
  done
  if [ "$prop" = C14 ]; then
    for gmp in 1 16; do for rep in 1 2 3; do
      ( digest "$RACE" "$prop" 100 "$gmp" "race-$gmp-$rep" > "$TMP/r-$prop-$gmp-$rep" ) &
      pids+=($!)
    done; done
  fi
  wait "${pids[@]}"
  u=$(cat "$TMP"/d-$prop-* | sort -u | wc -l)
  c=$(cat "$TMP"/d-$prop-* | wc -l)
  if [ "$u" != 1 ] || [ "$c" != 30 ]; then echo "selftest: $prop NONDETERMINISTIC: $u distinct digests in $c processes"; fail=1; else echo "selftest: $prop deterministic over $c processes (GOMAXPROCS 1/4/16): digest $(cat "$TMP"/d-$prop-1-1)"; fi
  if [ "$prop" = C14 ]; then
    u=$(cat "$TMP"/r-$prop-* | sort -u | wc -l); c=$(cat "$TMP"/r-$prop-* | wc -l)
    if [ "$u" != 1 ] || [ "$c" != 6 ]; then echo "selftest: C14 race build NONDETERMINISTIC: $u distinct digests in $c processes"; fail=1; else echo "selftest: C14 race build deterministic over $c processes"; fi
  fi
  rm -f "$TMP"/d-$prop-* "$TMP"/r-$prop-* "$TMP"/st-*
done
[ $fail = 0 ] || exit 2
echo "selftest: ok"
